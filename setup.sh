#!/bin/sh
# Offline build of the simulator (default feature set) from files on disk only.
set -e
cd "$(dirname "$0")"
export CARGO_NET_OFFLINE=true
exec ./check build
