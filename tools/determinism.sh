#!/bin/sh
# Determinism proof: the same VERIF_SEED must give the same traces, verdicts, probe
# counts and observable digests in separate processes and at different worker counts.
#   tools/determinism.sh [seeds] [runs-per-seed]
# exit 0 identical everywhere, 2 otherwise.
set -e
cd "$(dirname "$0")/.."
SEEDS=${1:-40}
RUNS=${2:-2000}
./check build >/dev/null
BIN=sim/bin/ecli-sim-hap
PROFILES=mix,decode,edit,term,hist,tab,frame,flush,rxfault,faultrand,tiny
TMP=$(mktemp -d /tmp/ecli-det.XXXXXX)
trap 'rm -rf "$TMP"' EXIT
bad=0
s=1
while [ "$s" -le "$SEEDS" ]; do
  ( cd sim && ../$BIN digest --observable 1 --profiles $PROFILES --runs $RUNS --seed $s --threads 1 ) > "$TMP/a" &
  ( cd sim && ../$BIN digest --observable 1 --profiles $PROFILES --runs $RUNS --seed $s --threads 5 ) > "$TMP/b" &
  ( cd sim && ../$BIN digest --observable 1 --profiles $PROFILES --runs $RUNS --seed $s --threads 16 ) > "$TMP/c" &
  ( cd sim && ../$BIN digest --observable 1 --profiles scen --runs $RUNS --seed $s --threads 7 ) > "$TMP/d1" &
  ( cd sim && ../$BIN digest --observable 1 --profiles scen --runs $RUNS --seed $s --threads 2 ) > "$TMP/d2" &
  wait
  if ! cmp -s "$TMP/a" "$TMP/b" || ! cmp -s "$TMP/a" "$TMP/c" || ! cmp -s "$TMP/d1" "$TMP/d2"; then
    echo "NON-DETERMINISM at seed $s"
    bad=1
  fi
  s=$((s + 1))
done
# the search itself: same reported numbers at different worker counts
( cd sim && ../$BIN run --prop C03 --profiles $PROFILES --runs 20000 --seed 7 --threads 3 --out "$TMP/r1.json" --replay-dir "$TMP" >/dev/null )
( cd sim && ../$BIN run --prop C03 --profiles $PROFILES --runs 20000 --seed 7 --threads 16 --out "$TMP/r2.json" --replay-dir "$TMP" >/dev/null )
python3 - "$TMP/r1.json" "$TMP/r2.json" <<'PY' || bad=1
import json,sys
a,b=[json.load(open(p)) for p in sys.argv[1:3]]
for k in ("evaluations","distinct_nontrivial","probes","distinct_states","decoder_pairs","bad_class_seqs","runs_faulty"):
    if a[k]!=b[k]:
        print("search statistics differ between worker counts:",k); sys.exit(1)
PY
if [ "$bad" -ne 0 ]; then echo "determinism: FAILED"; exit 2; fi
echo "determinism: $SEEDS seeds x $RUNS runs x {1,5,16} workers + scenario corpus x {2,7} workers: identical"
