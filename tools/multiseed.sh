#!/bin/sh
# The unchanged tree must stay silent for many different VERIF_SEEDs (no false alarms).
#   tools/multiseed.sh <first-seed> <last-seed> [props...]
# Evidence and replays of these runs go to a scratch directory. Exit 0 iff every check exited 0.
cd "$(dirname "$0")/.."
FIRST=${1:-2}; LAST=${2:-31}; shift 2 2>/dev/null
PROPS=${*:-C01 C02 C03 C04 C05 C06 C10 C11 C13 C14 C15}
SCR=$(mktemp -d /tmp/ecli-multiseed.XXXXXX)
export VERIF_EVIDENCE_DIR=$SCR/evidence VERIF_REPLAY_DIR=$SCR/replays
bad=0
s=$FIRST
while [ "$s" -le "$LAST" ]; do
  for p in $PROPS; do
    if ! VERIF_SEED=$s ./check $p quick > $SCR/out.txt 2>&1; then
      echo "seed $s property $p: NOT CLEAN"; grep -E "VIOLATION|check=|HARNESS" $SCR/out.txt | head -5
      mkdir -p multiseed-failures; cp $SCR/replays/* multiseed-failures/ 2>/dev/null
      bad=1
    fi
  done
  echo "seed $s done"
  s=$((s + 1))
done
rm -rf "$SCR"
[ $bad -eq 0 ] && echo "multiseed: seeds $FIRST..$LAST clean for: $PROPS"
exit $bad
