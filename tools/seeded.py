#!/usr/bin/env python3
"""Confirms a seeded change produced by a sub-agent and runs the checks against it.

  tools/seeded.py <agent-worktree> <property> <variant> <seeded-id> [extra check props...]

Steps (all recorded in /verif/seeded/<seeded-id>/meta.json):
  1. in the agent's scratch worktree (never in /repo): patch applies; the whole existing
     suite passes with it; the demonstration fails with it and passes without it;
  2. the patch is applied to /repo (git apply), `./check <prop> quick` (and the extra
     ones) are run with evidence/replays redirected to a scratch directory, and /repo
     is restored straight afterwards (git checkout -- .).
"""
import json
import os
import shutil
import subprocess
import sys
import time

ROOT = os.path.dirname(os.path.dirname(os.path.abspath(__file__)))
REPO = os.environ.get("VERIF_REPO", "/repo")


def sh(cmd, cwd=None, env=None):
    return subprocess.run(cmd, cwd=cwd, env=env, shell=isinstance(cmd, str), stdout=subprocess.PIPE, stderr=subprocess.STDOUT, text=True)


def suite(wt):
    r = sh("cargo test --workspace --offline --no-fail-fast 2>&1", cwd=wt)
    lines = [l for l in r.stdout.splitlines() if l.startswith("test result")]
    passed = sum(int(l.split(" passed")[0].split()[-1]) for l in lines)
    ok = bool(lines) and all(" 0 failed" in l for l in lines) and "error" not in r.stdout.split("test result")[0][-400:]
    return ok, passed


def demo(wt, demo_cmd):
    r = sh(demo_cmd + " 2>&1", cwd=wt)
    lines = [l for l in r.stdout.splitlines() if l.startswith("test result")]
    ok = r.returncode == 0 and bool(lines) and all(" 0 failed" in l for l in lines)
    return ok, r.stdout[-1500:]


def main():
    wt, prop, variant, sid = sys.argv[1:5]
    extra = sys.argv[5:]
    src = os.path.join(wt, "seeded", variant)
    patch = os.path.join(src, "patch.diff")
    demo_src = os.path.join(src, "demo.rs")
    demo_cmd = os.environ.get("DEMO_CMD")
    notes_path = os.path.join(src, "notes.md")
    if not demo_cmd and os.path.exists(notes_path):
        for line in open(notes_path):
            if "DEMO_CMD:" in line:
                demo_cmd = line.split("DEMO_CMD:", 1)[1].strip().strip("`").strip()
                break
    if not demo_cmd:
        demo_cmd = "cargo test -p embedded-cli --offline --test seeded_demo"
    meta = dict(id=sid, property=prop, source=f"sub-agent given only the text of {prop}, scratch worktree {wt}", variant=variant)
    sh("git checkout -- . && rm -f embedded-cli/tests/seeded_demo.rs", cwd=wt)
    # 1. confirm in the scratch worktree
    shutil.copy(demo_src, os.path.join(wt, "embedded-cli", "tests", "seeded_demo.rs"))
    ok_without, out_without = demo(wt, demo_cmd)
    r = sh(["git", "apply", patch], cwd=wt)
    if r.returncode != 0:
        print("patch does not apply:", r.stdout)
        return 2
    ok_with, out_with = demo(wt, demo_cmd)
    os.remove(os.path.join(wt, "embedded-cli", "tests", "seeded_demo.rs"))
    suite_ok, n = suite(wt)
    sh("git checkout -- . ", cwd=wt)
    meta["confirmed"] = dict(existing_suite_passes_with_change=suite_ok, suite_tests_passed=n, demo_fails_with_change=not ok_with,
                             demo_passes_without_change=ok_without, demo_cmd=demo_cmd)
    print(f"[{sid}] suite with change: {'pass' if suite_ok else 'FAIL'} ({n}); demo with change: {'fails' if not ok_with else 'PASSES'}; demo without: {'passes' if ok_without else 'FAILS'}")
    if not (suite_ok and not ok_with and ok_without):
        print(out_with[-800:])
        print(out_without[-800:])
        print(f"[{sid}] NOT confirmed - not kept")
        return 1
    # 2. run the checks against it
    if sh("git status --porcelain", cwd=REPO).stdout.strip():
        print("/repo is not clean")
        return 2
    scratch = f"/tmp/ecli-seeded-scratch-{sid}"
    env = dict(os.environ, VERIF_EVIDENCE_DIR=os.path.join(scratch, "evidence"), VERIF_REPLAY_DIR=os.path.join(scratch, "replays"))
    results = {}
    try:
        r = sh(["git", "apply", patch], cwd=REPO)
        if r.returncode != 0:
            print("patch does not apply to /repo:", r.stdout)
            return 2
        for p in [prop] + extra:
            t0 = time.time()
            r = sh(["./check", p, "quick"], cwd=ROOT, env=env)
            caught = r.returncode == 1 and "VIOLATION property=" in r.stdout
            detail = [l.strip() for l in r.stdout.splitlines() if l.strip().startswith(("check=", "VIOLATION"))]
            more = [l.strip() for l in r.stdout.splitlines()][-2:]
            results[p] = dict(caught=caught, exit=r.returncode, seconds=round(time.time() - t0, 1), report=detail[:3] or more)
            print(f"[{sid}] ./check {p} quick -> exit {r.returncode} {'CAUGHT' if caught else 'missed'} {detail[1:2]}")
    finally:
        sh("git checkout -- .", cwd=REPO)
        shutil.rmtree(scratch, ignore_errors=True)
    meta["checks_run"] = results
    meta["caught_by"] = [p for p, v in results.items() if v["caught"]]
    dst = os.path.join(ROOT, "seeded", sid)
    os.makedirs(dst, exist_ok=True)
    shutil.copy(patch, os.path.join(dst, "patch.diff"))
    shutil.copy(demo_src, os.path.join(dst, "demo.rs"))
    if os.path.exists(os.path.join(src, "notes.md")):
        shutil.copy(os.path.join(src, "notes.md"), os.path.join(dst, "notes.md"))
    old = {}
    mp = os.path.join(dst, "meta.json")
    if os.path.exists(mp):
        old = json.load(open(mp))
    for k in ("needs_to_manifest", "what", "history"):
        if k in old:
            meta[k] = old[k]
    json.dump(meta, open(mp, "w"), indent=1)
    return 0


if __name__ == "__main__":
    sys.exit(main())
