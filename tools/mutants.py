#!/usr/bin/env python3
"""Sensitivity proof: deliberate property-breaking changes to /repo, each of which
must be caught by the quick tier of the property it breaks.

  tools/mutants.py [name-substring ...]

Every mutant is applied to /repo's working tree (which must be clean), the listed
checks are run, and the tree is restored with `git checkout -- .` straight
afterwards. Mutants that stop the repository's own test suite from passing are
reported as such (they are still useful, but not "realistic" in the brief's sense).
Results are written to tools/mutants-result.json and printed as a table.
"""
import json
import os
import subprocess
import sys
import time

REPO = os.environ.get("VERIF_REPO", "/repo")
ROOT = os.path.dirname(os.path.dirname(os.path.abspath(__file__)))

FIXES = [
    ("revert-D9-crlf-pairing", "b341f9b", ["C04"]),
    ("revert-D1-utf8-validation", "9d45fe1", ["C02", "C03", "C04"]),
    ("revert-D2-leading-empty-quotes", "0818a88", ["C01"]),
    ("revert-D3-writeln-inner-lf", "907f25b", ["C13"]),
    ("revert-D4-cursor-after-redraw", "2cb3fef", ["C06", "C13"]),
    ("revert-D5-nonadjacent-names", "ab78eee", ["C11"]),
    ("revert-D6-tight-buffer-completion", "7f46407", ["C11"]),
    ("revert-D8-tokenised-line-kept", "9de5795", ["C14"]),
    ("revert-D7-group-help-error", "7de38b0", ["C14"]),
]

CLI = "embedded-cli/src/cli.rs"
ED = "embedded-cli/src/editor.rs"
HI = "embedded-cli/src/history.rs"
INP = "embedded-cli/src/input.rs"
WR = "embedded-cli/src/writer.rs"
AC = "embedded-cli/src/autocomplete.rs"
UT = "embedded-cli/src/utils.rs"
HELP = "embedded-cli/src/help.rs"
TOK = "embedded-cli/src/token.rs"

# (name, file, old, new, expected-to-be-caught-by)
EDITS = [
    ("flush-dropped-in-echo", CLI, "            self.writer.flush_str(c)?;", "            self.writer.write_str(c)?;", ["C15", "C06"]),
    # equivalent w.r.t. C15: the Enter branch always ends with flush_str(prompt) / the error line with flush_str(CRLF)
    ("EQUIVALENT-flush-dropped-after-handler", CLI, "            self.writer.write_str(codes::CRLF)?;\n        }\n        self.writer.flush()?;\n\n        match res {",
     "            self.writer.write_str(codes::CRLF)?;\n        }\n\n        match res {", ["C15"]),
    ("flush-dropped-in-cursor-move", CLI, "                self.writer.flush_bytes(codes::CURSOR_FORWARD)?;", "                self.writer.write_bytes(codes::CURSOR_FORWARD)?;", ["C15", "C06"]),
    ("flush-dropped-in-prompt-after-enter", CLI, "                self.writer.flush_str(self.prompt)?;\n            }\n            ControlInput::Tab",
     "                self.writer.write_str(self.prompt)?;\n            }\n            ControlInput::Tab", ["C15"]),
    ("insert-capacity-off-by-one", ED, "        if remaining < text.len() {", "        if remaining <= text.len() {", ["C05"]),
    ("insert-capacity-counts-chars", ED, "        if remaining < text.len() {", "        if remaining < chars {", ["C05", "C03"]),
    ("editor-not-cleared-after-enter", CLI, "                editor.clear();\n                res?;", "                res?;", ["C01"]),
    ("editor-restored-only-on-ok", CLI, "            self.editor = Some(editor);\n            self.input_generator = Some(input_generator);\n            result",
     "            if result.is_ok() {\n                self.editor = Some(editor);\n                self.input_generator = Some(input_generator);\n            }\n            result", ["C14", "C03"]),
    ("cursor-codes-swapped", "embedded-cli/src/codes.rs", 'pub const CURSOR_FORWARD: &[u8] = b"\\x1B[C";\npub const CURSOR_BACKWARD: &[u8] = b"\\x1B[D";',
     'pub const CURSOR_FORWARD: &[u8] = b"\\x1B[D";\npub const CURSOR_BACKWARD: &[u8] = b"\\x1B[C";', ["C06"]),
    ("insert-char-code-dropped", CLI, "                self.writer.write_bytes(codes::INSERT_CHAR)?;", "", ["C06"]),
    ("history-evict-off-by-one", HI, "        if self.buffer.len() < self.used + text.len() + 1 {", "        if self.buffer.len() < self.used + text.len() {", ["C10", "C03"]),
    ("history-dedupe-only-newest", HI, "            if existing == text {\n                // SAFETY: if next_older() returned Some, then", "            if false && existing == text {\n                // SAFETY: if next_older() returned Some, then", ["C10"]),
    ("history-keeps-cursor-on-push", HI, "        self.cursor = None;\n\n        // remove old commands to free space", "        // remove old commands to free space", ["C10", "C03"]),
    ("history-down-keeps-line", CLI, "            NavigateHistory::Newer => self.history.next_newer().or(Some(\"\")),", "            NavigateHistory::Newer => self.history.next_newer(),", ["C10"]),
    ("history-pushed-after-tokenising", CLI, "                #[cfg(feature = \"history\")]\n                self.history.push(editor.text());\n                let text = editor.text_mut();\n\n                let tokens = Tokens::new(text);",
     "                let text = editor.text_mut();\n\n                let tokens = Tokens::new(text);\n                #[cfg(feature = \"history\")]\n                self.history.push(tokens.clone().into_raw());", ["C10"]),
    ("tab-space-without-room-check", ED, "                if !autocompletion.is_partial() && self.valid < self.buffer.len() {", "                if !autocompletion.is_partial() {", ["C11", "C03"]),
    ("tab-ignores-builtin-help", CLI, "                Request::CommandName(name) if \"help\".starts_with(name) => {", "                Request::CommandName(name) if false && \"help\".starts_with(name) => {", ["C11"]),
    ("tab-space-even-if-partial", ED, "                if !autocompletion.is_partial() && self.valid < self.buffer.len() {", "                if self.valid < self.buffer.len() {", ["C11"]),
    ("writer-dirty-inverted", WR, "        self.dirty\n            && (self.last_bytes[0] != codes::CARRIAGE_RETURN", "        !self.dirty\n            && (self.last_bytes[0] != codes::CARRIAGE_RETURN", ["C13"]),
    ("writer-lf-not-converted", WR, "                self.writer.write_str(line)?;\n                self.writer.write_str(codes::CRLF)?;", "                self.writer.write_str(line)?;\n                self.writer.write_str(\"\\n\")?;", ["C13"]),
    ("error-line-without-crlf", CLI, "        self.writer.flush_str(codes::CRLF)\n    }", "        self.writer.flush()\n    }", ["C13", "C06"]),
    ("write-does-not-restore-line", CLI, "    fn write_input(&mut self) -> Result<(), E> {\n        if let Some(editor) = self.editor.as_ref() {", "    fn write_input(&mut self) -> Result<(), E> {\n        if let Some(editor) = self.editor.as_ref().filter(|e| e.cursor() == e.len()) {", ["C06", "C13"]),
    ("flush-error-swallowed", WR, "        self.write_bytes(bytes)?;\n        self.flush()\n    }", "        self.write_bytes(bytes)?;\n        let _ = self.flush();\n        Ok(())\n    }", ["C14"]),
    ("handler-error-swallowed", CLI, "            Err(ProcessError::WriteError(err)) => Err(err),", "            Err(ProcessError::WriteError(_)) => Ok(()),", ["C14"]),
    ("csi-final-range-too-small", INP, "        if (0x40..=0x7E).contains(&byte) {", "        if (0x41..=0x7E).contains(&byte) {", ["C04"]),
    ("lone-esc-swallows-next-byte", INP, "        } else if last_byte == codes::ESCAPE && byte == b'[' {", "        } else if last_byte == codes::ESCAPE {", ["C04"]),
    ("backspace-removes-after-cursor", CLI, "                if editor.move_left() {\n                    editor.remove();", "                if editor.cursor() < editor.len() {\n                    editor.remove();", ["C05"]),
    ("help-route-misses-short-h", HELP, "arg == Arg::LongOption(\"help\") || arg == Arg::ShortOption('h')", "arg == Arg::LongOption(\"help\")", ["C01"]),
    ("dispatch-twice", CLI, "            self.process_command(command, handler)?;\n        };", "            self.process_command(command.clone(), handler)?;\n            if command.name() == \"set\" {\n                self.process_command(command, handler)?;\n            }\n        };", ["C01"]),
    ("prompt-change-from-handler-ignored-when-output", CLI, "        if let Some(prompt) = handle.new_prompt {\n            self.prompt = prompt;\n        }", "        if let Some(prompt) = handle.new_prompt.filter(|_| !handle.writer.is_dirty()) {\n            self.prompt = prompt;\n        }", ["C06"]),
    ("utf8-4byte-threshold", "embedded-cli/src/utf8.rs", "        } else if byte >= 0xF0 {", "        } else if byte >= 0xF1 {", ["C04", "C02"]),
    ("derived-processor-swallows-handler-error", "embedded-cli-macros/src/processor.rs", "                        (self.f)(cli, cmd)?;", "                        let _ = (self.f)(cli, cmd);", ["C14"]),
    ("raw-processor-swallows-handler-error", "embedded-cli/src/command.rs", "                (self.f)(cli, raw)?;", "                let _ = (self.f)(cli, raw);", ["C14"]),
    ("cli-new-does-not-flush-prompt", CLI, "            _ph: PhantomData,\n            #[cfg(feature = \"verif-hooks\")]\n            verif_last: crate::verif::VerifInput::None,\n        };\n\n        cli.writer.flush_str(cli.prompt)?;",
     "            _ph: PhantomData,\n            #[cfg(feature = \"verif-hooks\")]\n            verif_last: crate::verif::VerifInput::None,\n        };\n\n        cli.writer.write_str(cli.prompt)?;", ["C15", "C06"]),
    ("slice-buffer-len-off-by-one", "embedded-cli/src/buffer.rs", "impl Buffer for &mut [u8] {\n    fn as_slice(&self) -> &[u8] {\n        self\n    }",
     "impl Buffer for &mut [u8] {\n    fn as_slice(&self) -> &[u8] {\n        self\n    }\n\n    fn len(&self) -> usize {\n        self.as_slice().len().saturating_sub(1)\n    }", ["C05", "C10"]),
    ("macro-help-usage-error-ignored", "embedded-cli-macros/src/command/help.rs", "            writer.write_title(\"Usage:\")?;", "            let _ = writer.write_title(\"Usage:\");", ["C14"]),
    ("macro-help-list-error-ignored", "embedded-cli-macros/src/command/help.rs", "                writer.write_list_element(#name, #help, #max_len)?;", "                let _ = writer.write_list_element(#name, #help, #max_len);", ["C14"]),
    ("EQUIVALENT-help-output-not-flushed", CLI, "        if writer.is_dirty() {\n            self.writer.write_str(codes::CRLF)?;\n        }\n        self.writer.flush()?;\n\n        Ok(())\n    }\n}",
     "        if writer.is_dirty() {\n            self.writer.write_str(codes::CRLF)?;\n        }\n\n        Ok(())\n    }\n}", []),
    ("tokens-lose-escaped-backslash", TOK, "                Mode::Unescape => {\n                    bytes[insert] = byte;\n                    insert += 1;", "                Mode::Unescape => {\n                    if byte != b'\\\\' {\n                        bytes[insert] = byte;\n                        insert += 1;\n                    }", ["C01"]),
    ("args-double-dash-not-sticky", "embedded-cli/src/arguments.rs", "                    self.values_only = true;\n", "", ["C01"]),
    ("clear-line-without-cr", CLI, "        self.writer.write_str(\"\\r\")?;\n        self.writer.write_bytes(codes::CLEAR_LINE)?;", "        self.writer.write_bytes(codes::CLEAR_LINE)?;", ["C06", "C13"]),
    ("set-prompt-keeps-old-prompt-on-screen", CLI, "        self.prompt = prompt;\n        self.clear_line(false)?;", "        self.clear_line(false)?;\n        self.prompt = prompt;", ["C06"]),
    ("recall-does-not-clear-longer-line", CLI, "            editor.clear();\n            editor.insert(element);\n            self.clear_line(false)?;", "            editor.clear();\n            editor.insert(element);\n            self.writer.write_str(\"\\r\")?;\n            self.writer.write_str(self.prompt)?;", ["C06"]),
    # ---- behaviour-preserving changes: the checks must stay silent (false-alarm probes)
    ("EQUIVALENT-extra-flush-in-echo", CLI, "            self.writer.flush_str(c)?;", "            self.writer.flush_str(c)?;\n            self.writer.flush()?;", ["C15", "C06", "C14", "C05"]),
    ("EQUIVALENT-cursor-restore-with-one-counted-move", CLI, "            for _ in editor.cursor()..editor.len() {\n                self.writer.write_bytes(codes::CURSOR_BACKWARD)?;\n            }",
     "            let mut n = editor.len() - editor.cursor();\n            if n > 0 {\n                let mut buf = [0u8; 20];\n                let mut i = 20;\n                while n > 0 {\n                    i -= 1;\n                    buf[i] = b'0' + (n % 10) as u8;\n                    n /= 10;\n                }\n                self.writer.write_bytes(b\"\\x1B[\")?;\n                self.writer.write_bytes(&buf[i..])?;\n                self.writer.write_bytes(b\"D\")?;\n            }", ["C06", "C13", "C15", "C14"]),
    ("EQUIVALENT-error-text-reworded", CLI, "                self.writer.write_str(\"unexpected argument: \")?;", "                self.writer.write_str(\"unexpected value: \")?;", ["C13", "C14", "C16", "C01"]),
    ("EQUIVALENT-crlf-in-two-writes", CLI, "            ControlInput::Enter => {\n                self.writer.write_str(codes::CRLF)?;", "            ControlInput::Enter => {\n                self.writer.write_str(\"\\r\")?;\n                self.writer.write_str(\"\\n\")?;", ["C13", "C01", "C06", "C14", "C15"]),
    ("EQUIVALENT-history-compare-bytes", HI, "            Some(existing) if existing == text => {", "            Some(existing) if existing.as_bytes() == text.as_bytes() => {", ["C10"]),
    ("EQUIVALENT-clear-line-erases-then-returns", CLI, "        self.writer.write_str(\"\\r\")?;\n        self.writer.write_bytes(codes::CLEAR_LINE)?;", "        self.writer.write_bytes(codes::CLEAR_LINE)?;\n        self.writer.write_str(\"\\r\")?;", ["C06", "C13", "C10"]),
    ("common-prefix-byte-granular", UT, "        if c1.is_some() {\n            pos = byte_counter;\n        }", "        pos = byte_counter;", ["C11", "C02", "C03"]),
]


def sh(cmd, cwd=None, timeout=None):
    return subprocess.run(cmd, cwd=cwd, shell=isinstance(cmd, str), stdout=subprocess.PIPE, stderr=subprocess.STDOUT, text=True, timeout=timeout)


def clean():
    sh("git checkout -- .", cwd=REPO)


def repo_tests_pass():
    r = sh("cargo test --workspace --offline --no-fail-fast 2>&1 | grep -E '^test result' ", cwd=REPO)
    lines = [l for l in r.stdout.splitlines() if l.startswith("test result")]
    return bool(lines) and all("FAILED" not in l and " 0 failed" in l for l in lines)


SCRATCH = "/tmp/ecli-mutants-scratch"


def run_checks(props):
    res = {}
    env = dict(os.environ)
    # evidence and replay files of mutant runs must not overwrite the real ones
    env["VERIF_EVIDENCE_DIR"] = os.path.join(SCRATCH, "evidence")
    env["VERIF_REPLAY_DIR"] = os.path.join(SCRATCH, "replays")
    for p in props:
        t0 = time.time()
        r = subprocess.run(["./check", p, "quick"], cwd=ROOT, env=env, stdout=subprocess.PIPE, stderr=subprocess.STDOUT, text=True)
        caught = r.returncode == 1 and "VIOLATION property=" in r.stdout
        detail = next((l.strip() for l in r.stdout.splitlines() if l.strip().startswith("check=")), "")
        res[p] = dict(caught=caught, exit=r.returncode, seconds=round(time.time() - t0, 1), detail=detail[:200])
        if r.returncode == 2:
            res[p]["harness_error"] = r.stdout[-600:]
    return res


def main():
    want = sys.argv[1:]
    if sh("git status --porcelain", cwd=REPO).stdout.strip():
        print("/repo working tree is not clean")
        return 2
    results = []
    todo = []
    for name, commit, props in FIXES:
        todo.append((name, ("revert", commit), props))
    for name, f, old, new, props in EDITS:
        todo.append((name, ("edit", f, old, new), props))
    for name, how, props in todo:
        if want and not any(w in name for w in want):
            continue
        clean()
        if how[0] == "revert":
            r = sh(f"git diff {how[1]} {how[1]}^ | git apply", cwd=REPO)
            if r.returncode != 0:
                print(name, "revert does not apply:", r.stdout)
                continue
        else:
            path = os.path.join(REPO, how[1])
            s = open(path).read()
            if how[2] not in s:
                print(f"{name}: pattern not found in {how[1]}")
                results.append(dict(name=name, error="pattern not found"))
                continue
            open(path, "w").write(s.replace(how[2], how[3], 1))
        try:
            b = sh("cargo build -p embedded-cli --offline 2>&1 | tail -3", cwd=REPO)
            compiles = "error" not in b.stdout
            tests = repo_tests_pass() if compiles else False
            res = run_checks(props) if compiles else {}
        finally:
            clean()
        caught_by = [p for p, v in res.items() if v["caught"]]
        if name.startswith("EQUIVALENT-") and caught_by:
            print(f"!!! FALSE ALARM on behaviour-preserving change {name}: {caught_by} {[res[p]['detail'] for p in caught_by]}", flush=True)
        results.append(dict(name=name, compiles=compiles, suite_passes=tests, expected=props, caught_by=caught_by, checks=res))
        print(f"{name:48s} compiles={compiles} suite_passes={tests} caught_by={caught_by} missed_by={[p for p in props if p not in caught_by]}", flush=True)
    clean()
    sh(["rm", "-rf", SCRATCH])
    out_path = os.path.join(ROOT, "tools", "mutants-result.json")
    if want and os.path.exists(out_path):
        # a filtered run updates the entries it ran and keeps the others
        old = {r["name"]: r for r in json.load(open(out_path))}
        for r in results:
            old[r["name"]] = r
        order = [n for n, _, _ in todo]
        merged = [old[n] for n in order if n in old]
        json.dump(merged, open(out_path, "w"), indent=1)
    else:
        json.dump(results, open(out_path, "w"), indent=1)
    real = [r for r in results if not r["name"].startswith("EQUIVALENT-")]
    equiv = [r for r in results if r["name"].startswith("EQUIVALENT-")]
    missed = [r["name"] for r in real if not r.get("caught_by")]
    alarms = [r["name"] for r in equiv if r.get("caught_by")]
    print(f"{len(real) - len(missed)}/{len(real)} property-breaking mutants caught by at least one expected check; not caught: {missed}")
    print(f"{len(equiv) - len(alarms)}/{len(equiv)} behaviour-preserving changes left alone; false alarms: {alarms}")
    return 0 if not missed and not alarms else 1


if __name__ == "__main__":
    sys.exit(main())
