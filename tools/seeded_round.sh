#!/bin/sh
# tools/seeded_round.sh <worktree-prefix> <id-prefix> <k...>: runs tools/seeded.py for variants a b c of
# every agent worktree <worktree-prefix><k>, taking the property from the first line of notes.md (PROPERTY: Cxx)
WT=$1; PFX=$2; shift 2
for k in "$@"; do
  for v in a b c; do
    d=$WT$k/seeded/$v
    [ -f $d/patch.diff ] || continue
    prop=$(grep -m1 -o 'PROPERTY: *C[0-9]*' $d/notes.md | grep -o 'C[0-9]*')
    [ -n "$prop" ] || { echo "[$PFX-$k$v] no PROPERTY line"; continue; }
    python3 "$(dirname "$0")/seeded.py" $WT$k $prop $v $PFX-$k$v 2>&1 | grep -v "^$" | tail -2
  done
done
