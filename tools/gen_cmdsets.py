#!/usr/bin/env python3
"""Generates sim/src/cmdsets_gen.rs: a family of command declarations for the real
derive macros, with the metadata the oracle / generator need (visible names in
completion order, lines worth typing).

usage: gen_cmdsets.py <family-seed> <out.rs>

Half of the family is adversarial by construction, half random over a tiny
syllable alphabet (derived from the family seed) so that shared prefixes are
the norm. Family seed 0 is the committed default.
"""
import re
import sys


class Rng:
    """splitmix64 - so the family is a pure function of its seed"""

    def __init__(self, seed):
        self.s = seed & 0xFFFFFFFFFFFFFFFF

    def next(self):
        self.s = (self.s + 0x9E3779B97F4A7C15) & 0xFFFFFFFFFFFFFFFF
        z = self.s
        z = ((z ^ (z >> 30)) * 0xBF58476D1CE4E5B9) & 0xFFFFFFFFFFFFFFFF
        z = ((z ^ (z >> 27)) * 0x94D049BB133111EB) & 0xFFFFFFFFFFFFFFFF
        return z ^ (z >> 31)

    def below(self, n):
        return self.next() % n

    def pick(self, xs):
        return xs[self.below(len(xs))]


def kebab(ident):
    return re.sub(r"(?<!^)(?=[A-Z])", "-", ident).lower()


class Field:
    def __init__(self, ident, ty, kind="pos", optional=False, short=None, long=None, default=None, value_name=None):
        self.ident, self.ty, self.kind = ident, ty, kind
        self.optional, self.short, self.long, self.default = optional, short, long, default
        self.value_name = value_name

    def rust_ty(self):
        t = {"str": "&'a str"}.get(self.ty, self.ty)
        return f"Option<{t}>" if self.optional else t

    def short_char(self):
        if self.short is None:
            return None
        return self.ident[0] if self.short is True else self.short

    def long_name(self):
        if self.long is None:
            return None
        return self.ident.replace("_", "-") if self.long is True else self.long

    def attr(self):
        parts = []
        if self.short is True:
            parts.append("short")
        elif self.short is not None:
            parts.append(f"short = '{self.short}'")
        if self.long is True:
            parts.append("long")
        elif self.long is not None:
            parts.append(f'long = "{self.long}"')
        if self.default is not None:
            parts.append(f'default_value = "{self.default}"')
        if self.value_name is not None:
            parts.append(f'value_name = "{self.value_name}"')
        return f"#[arg({', '.join(parts)})]\n        " if parts else ""

    def good_value(self):
        return {"u8": "7", "i32": "12", "bool": "true", "str": "abc", "char": "x", "f32": "1.5",
                "u16": "300"}[self.ty]

    def bad_value(self):
        return None if self.ty == "str" else "zz"

    def required(self):
        return self.kind != "flag" and not self.optional and self.default is None


class Cmd:
    def __init__(self, ident, fields=(), name=None, doc=None, sub=None, tuple_sub=None):
        self.ident, self.fields, self.explicit = ident, list(fields), name
        self.doc, self.sub, self.tuple_sub = doc, sub, tuple_sub

    def name(self):
        return self.explicit if self.explicit is not None else kebab(self.ident)


class Enum:
    def __init__(self, ident, cmds, title=None):
        self.ident, self.cmds, self.title = ident, cmds, title

    def uses_lt(self, enums):
        for c in self.cmds:
            if any(f.ty == "str" for f in c.fields):
                return True
            for s in (c.sub, c.tuple_sub):
                if s and enums[s].uses_lt(enums):
                    return True
        return False


class Group:
    def __init__(self, ident, members):
        # members: (variant ident, type ident or "RawCommand", hidden)
        self.ident, self.members = ident, members


def emit_enum(e, enums, out):
    lt = "<'a>" if e.uses_lt(enums) else ""
    out.append("#[derive(Debug, Command)]")
    if e.title:
        out.append(f'#[command(help_title = "{e.title}")]')
    out.append("#[allow(dead_code)]")
    out.append(f"pub enum {e.ident}{lt} {{")
    for c in e.cmds:
        if c.doc:
            out.append(f"    /// {c.doc}")
        attrs = []
        if c.explicit is not None:
            attrs.append(f'name = "{c.explicit}"')
        if c.tuple_sub:
            attrs.append("subcommand")
        if attrs:
            out.append(f"    #[command({', '.join(attrs)})]")
        if c.tuple_sub:
            slt = "<'a>" if enums[c.tuple_sub].uses_lt(enums) else ""
            out.append(f"    {c.ident}({c.tuple_sub}{slt}),")
        elif c.fields or c.sub:
            out.append(f"    {c.ident} {{")
            for f in c.fields:
                out.append(f"        /// {f.ident} of {c.ident}")
                out.append(f"        {f.attr()}{f.ident}: {f.rust_ty()},")
            if c.sub:
                slt = "<'a>" if enums[c.sub].uses_lt(enums) else ""
                out.append("        #[command(subcommand)]")
                out.append(f"        command: {c.sub}{slt},")
            out.append("    },")
        else:
            out.append(f"    {c.ident},")
    out.append("}")
    out.append("")


def cmd_lines(c, enums, depth=0):
    """Lines (without leading path) that exercise command c, as (line, tag) pairs.
    tag True: by construction of the declaration the line is a complete, correct invocation.
    tag "invalid": by construction the line must be rejected by the derived parser (a command that
    declares at least one field and gets an undeclared option, an unparsable value or lacks a required
    argument). tag False: no expectation."""
    has_fields = bool(c.fields)
    name = c.name()
    q = '"' + name + '"' if " " in name else name
    lines = []
    pos = [f for f in c.fields if f.kind == "pos"]
    opts = [f for f in c.fields if f.kind == "opt"]
    flags = [f for f in c.fields if f.kind == "flag"]

    def optstr(f, val):
        if f.long_name() is not None:
            return f"--{f.long_name()} {val}"
        return f"-{f.short_char()} {val}"

    def shortstr(f, val):
        return f"-{f.short_char()} {val}"

    req = " ".join([optstr(f, f.good_value()) for f in opts if f.required()] +
                   [f.good_value() for f in pos if f.required()])
    full = " ".join([optstr(f, f.good_value()) for f in opts] +
                    [("--" + f.long_name()) if f.long_name() else ("-" + f.short_char()) for f in flags] +
                    [f.good_value() for f in pos])
    sub = enums[c.sub] if c.sub else (enums[c.tuple_sub] if c.tuple_sub else None)
    base_ok = (q + " " + req).strip()
    if sub is None:
        lines.append((base_ok, True))
        if full != req:
            lines.append(((q + " " + full).strip(), True))
        # options given through their short names (a user's own -h is only an option when help is compiled out,
        # the oracle knows that such a line is a help request otherwise)
        sh = [f for f in opts if f.short_char()]
        if sh:
            lines.append(((q + " " + " ".join([shortstr(f, f.good_value()) if f.short_char() else optstr(f, f.good_value()) for f in opts if f.required() or f.short_char()] +
                                               [f.good_value() for f in pos if f.required()])).strip(), True))
        if any(f.required() for f in c.fields):
            lines.append((q, "invalid"))  # missing required argument
        lines.append((base_ok + " extra1 extra2", False))  # unexpected argument (or fills optionals)
        lines.append((base_ok + " --zzz", "invalid" if has_fields else False))  # unexpected long option
        lines.append((base_ok + " -Z", "invalid" if has_fields else False))  # unexpected short option
        for f in pos + opts:
            if f.bad_value():
                if f.kind == "pos":
                    vals = [g.bad_value() if g is f else g.good_value() for g in pos if g.required() or g is f]
                    lines.append(((q + " " + " ".join([optstr(g, g.good_value()) for g in opts if g.required()] + vals)).strip(), "invalid"))
                else:
                    lines.append(((q + " " + optstr(f, f.bad_value()) + " " +
                                   " ".join([optstr(g, g.good_value()) for g in opts if g.required() and g is not f] +
                                            [g.good_value() for g in pos if g.required()])).strip(), "invalid"))
                break
        shorts = [f.short_char() for f in flags if f.short_char()]
        if len(shorts) >= 1:
            lines.append(((q + " -" + "".join(shorts) + " " + req).strip(), True))
        if pos and pos[0].ty == "str":
            lines.append((q + ' "two words"', False))
            lines.append((q + ' -- -x', False))
    else:
        lines.append((base_ok, False))  # missing sub-command
        if depth < 2:
            for sc in sub.cmds[:3]:
                for (l, v) in cmd_lines(sc, enums, depth + 1)[:4]:
                    lines.append(((base_ok + " " + l).strip(), v))
        lines.append((base_ok + " nosuch", False))
    lines.append((q + " --help", False))
    lines.append((q + " -h", False))
    return lines


def set_lines(top, enums, groups):
    """returns (lines, valid_lines)"""
    lines = [("help", False), ("nosuch 1 2", False), ("help nosuch", False)]
    members = []
    if isinstance(top, Group):
        for (_, ty, hidden) in top.members:
            if ty != "RawCommand":
                members.append((enums[ty], hidden))
    else:
        members.append((top, False))
    claimed = set()
    after_catch_all = False
    order = [(ty, hidden) for (_, ty, hidden) in top.members] if isinstance(top, Group) else []
    raw_seen_before = {}
    seen_raw = False
    for (ty, hidden) in order:
        if ty == "RawCommand":
            seen_raw = True
        else:
            raw_seen_before[ty] = seen_raw
    for (e, hidden) in members:
        after_catch_all = raw_seen_before.get(e.ident, False)
        dup = {c.name() for c in e.cmds} & claimed
        claimed |= {c.name() for c in e.cmds}
        for c in e.cmds:
            cl = cmd_lines(c, enums)
            if c.name() in dup or after_catch_all:
                # an earlier member of the group (a same-named command, or a RawCommand catch-all)
                # answers this line: no expectation
                cl = [(l, False) for (l, _) in cl]
            if hidden is None:
                pass
            lines.extend(cl[:11] if len(e.cmds) <= 4 else cl[:5])
            lines.append(("help " + c.name(), False))
            sub = enums[c.sub] if c.sub else (enums[c.tuple_sub] if c.tuple_sub else None)
            if sub is not None:
                for sc in sub.cmds[:2]:
                    lines.append(("help " + c.name() + " " + sc.name(), False))
    # de-duplicate, keep order
    seen, out, valid, invalid = set(), [], [], []
    for (l, v) in lines:
        if l not in seen and "\\" not in l:
            seen.add(l)
            out.append(l)
            if v is True:
                valid.append(l)
            elif v == "invalid":
                invalid.append(l)
    return out, valid, invalid


def visible_names(top, enums):
    names = []
    if isinstance(top, Group):
        for (_, ty, hidden) in top.members:
            if hidden or ty == "RawCommand":
                continue
            names.extend(c.name() for c in enums[ty].cmds)
    else:
        names.extend(c.name() for c in top.cmds)
    return names


def rs_str(s):
    return '"' + s.replace("\\", "\\\\").replace('"', '\\"') + '"'


SYL = ["ge", "t", "se", "st", "a", "r", "le", "d", "-", "ta", "tu", "s"]
SYL_MB = ["ж", "а", "б", "日", "記", "誌", "é", "ß", "😀", "😁", "x", "-"]


def random_name(rng, taken, multibyte=False):
    syl = SYL_MB if multibyte else SYL
    for _ in range(200):
        k = 1 + rng.below(4)
        nm = "".join(rng.pick(syl) for _ in range(k)).strip("-")
        nm = re.sub(r"-+", "-", nm)
        if not nm or nm == "help" or nm in taken or nm.startswith("-") or nm.endswith("-"):
            continue
        if not multibyte and not re.match(r"^[a-z][a-z-]*$", nm):
            continue
        return nm
    return None


def random_fields(rng):
    r = rng.below(6)
    if r == 1:
        return [Field("val", "u8")]
    if r == 2:
        return [Field("text", "str", optional=True), Field("fast", "bool", kind="flag", short=True, long=True)]
    if r == 3:
        return [Field("level", "i32", kind="opt", short=True, long=True), Field("file", "str")]
    if r == 4:
        return [Field("a", "u16"), Field("b", "char", optional=True), Field("quiet", "bool", kind="flag", short=True)]
    if r == 5:
        return [Field("name", "str", kind="opt", long=True, default="dflt"), Field("ratio", "f32", optional=True)]
    return []


def random_enum(rng, ident, n, multibyte=False, enums=None, depth=0, taken=None):
    """taken: names already used by other members of the same group (a name claimed by two members
    of a group would be answered by the first one only; such declarations are not generated)"""
    names = []
    while len(names) < n:
        nm = random_name(rng, names + sorted(taken or []), multibyte and rng.below(2) == 0)
        if nm is None:
            break
        names.append(nm)
    if taken is not None:
        taken.update(names)
    cmds = []
    for i, nm in enumerate(names):
        sub = None
        if enums is not None and depth < 2 and rng.below(5) == 0:
            sub_ident = f"{ident}Sub{i}"
            enums[sub_ident] = random_enum(rng, sub_ident, 1 + rng.below(3), False, enums, depth + 1)
            sub = sub_ident
        if sub and rng.below(2) == 0:
            cmds.append(Cmd(f"C{i}", name=nm, tuple_sub=sub, doc=f"Command {nm}"))
        else:
            fields = random_fields(rng)
            if sub:
                # the macro does not allow positionals next to a sub-command
                fields = [f for f in fields if f.kind != "pos"]
            cmds.append(Cmd(f"C{i}", fields, name=nm, doc=f"Command {nm}" if rng.below(3) else None, sub=sub))
    return Enum(ident, cmds, title=f"Title {ident}" if rng.below(3) == 0 else None)


def build_family(seed):
    rng = Rng(seed * 7919 + 17)
    enums, tops = {}, []

    def add(e):
        enums[e.ident] = e
        return e

    # 1 README basic
    tops.append(add(Enum("S1", [
        Cmd("Hello", [Field("name", "str", optional=True)], doc="Say hello to World or someone else"),
        Cmd("Exit", doc="Stop CLI and exit"),
    ])))
    # 2 names sharing a prefix declared non-adjacently
    tops.append(add(Enum("S2", [
        Cmd("GetLed", [Field("led", "u8")], doc="Get current LED value"),
        Cmd("Set", [Field("led", "u8"), Field("value", "bool")], doc="Set LED"),
        Cmd("GetAdc", [Field("adc", "u8")], doc="Get current ADC value"),
    ])))
    # 3 one name a prefix of another
    tops.append(add(Enum("S3", [
        Cmd("GetAll", doc="Get everything"),
        Cmd("Get", [Field("what", "str", optional=True)], doc="Get one"),
        Cmd("Set", [Field("v", "i32")]),
        Cmd("GetAllNow"),
    ])))
    # 4 collisions with the built-in help
    tops.append(add(Enum("S4", [
        Cmd("He", doc="Helium"),
        Cmd("Hello", [Field("name", "str", optional=True)]),
        Cmd("Helper"),
        Cmd("Hex", [Field("v", "u16")]),
    ])))
    # 5 multi-byte names
    tops.append(add(Enum("S5", [
        Cmd("Privet", name="привет", doc="Поздороваться"),
        Cmd("Priem", [Field("n", "u8", optional=True)], name="приём"),
        Cmd("Pri", name="при"),
        Cmd("Nihon", name="日本"),
        Cmd("Nikki", [Field("t", "str")], name="日記"),
        Cmd("Nisshi", name="日誌"),
        Cmd("Prigod", name="пригод"),
        Cmd("Emoji", name="😀😀x"),
        Cmd("Pokazat", name="показать-конфигурацию-сетевых-интерфейсов", doc="Длинное имя"),
    ])))
    # 6 single command
    tops.append(add(Enum("S6", [Cmd("Reboot", [Field("force", "bool", kind="flag", short=True, long=True)], doc="Reboot device")])))
    # 7 long names for tight buffers
    tops.append(add(Enum("S7", [
        Cmd("GetLedStatus", doc="Led status"),
        Cmd("GetAdc", [Field("adc", "u8")]),
        Cmd("Set", [Field("v", "u8")]),
    ])))
    # 8 options heavy (as in the repository's tests)
    tops.append(add(Enum("S8", [
        Cmd("Cmd", [
            Field("name", "str", kind="opt", optional=True, short=True, long=True),
            Field("config", "str", kind="opt", long="конф"),
            Field("level", "u8", kind="opt", short=True),
            Field("verbose", "bool", kind="flag", short="Ю", long=True),
            Field("file", "str"),
        ], doc="Do things"),
        Cmd("Defs", [
            Field("name", "str", kind="opt", long=True, default="default name"),
            Field("level", "u8", kind="opt", long=True, default="8"),
            Field("ch", "char", optional=True),
            Field("ratio", "f32", optional=True),
        ]),
    ])))
    # 9 nested sub-commands
    add(Enum("S9SubSub", [
        Cmd("Cmd", [Field("item", "str", kind="opt", optional=True, short=True, long=True),
                    Field("verbose", "bool", kind="flag", short=True, long=True),
                    Field("file", "str")], doc="Command something"),
        Cmd("Test", [Field("verbose", "bool", kind="flag", short=True, long=True), Field("value", "str")], doc="Test something"),
    ]))
    add(Enum("S9Sub1", [
        Cmd("Get", [Field("item", "str", kind="opt", optional=True, short=True, long=True),
                    Field("verbose", "bool", kind="flag", short=True, long=True)], sub="S9SubSub", doc="Get something"),
        Cmd("Set", [Field("value", "str")], doc="Set something"),
    ]))
    add(Enum("S9Sub2", [
        Cmd("Get", [Field("item", "str", kind="opt", optional=True, short=True, long=True)], doc="Get something else"),
        Cmd("Write", [Field("line", "str"), Field("n", "u8", optional=True)], doc="Write line"),
    ]))
    tops.append(add(Enum("S9", [
        Cmd("Base1", [Field("name", "str", kind="opt", optional=True, short=True, long=True),
                      Field("level", "u8", kind="opt", short=True, long=True),
                      Field("verbose", "bool", kind="flag", short=True)], name="base1", sub="S9Sub1", doc="Base command"),
        Cmd("Base2", name="base2", tuple_sub="S9Sub2", doc="Another base command"),
    ])))
    # 10 README group: base + hardware + catch-all
    add(Enum("S10Hw", [
        Cmd("GetLed", [Field("led", "u8")], doc="Get current LED value"),
        Cmd("GetAdc", [Field("adc", "u8")], doc="Get current ADC value"),
    ], title="Manage Hardware"))
    tops.append(Group("S10", [("Base", "S1", False), ("Get", "S10Hw", False), ("Other", "RawCommand", False)]))
    # 11 group whose members split a prefix; hidden group sharing prefixes
    add(Enum("S11A", [Cmd("Status", doc="Show status"), Cmd("Start", [Field("n", "u8", optional=True)])]))
    add(Enum("S11B", [Cmd("Stop"), Cmd("Stat", [Field("verbose", "bool", kind="flag", short=True)]), Cmd("Set", [Field("v", "i32")])], title="More"))
    add(Enum("S11C", [Cmd("Stash"), Cmd("Secret", [Field("key", "str")])], title="Hidden ones"))
    tops.append(Group("S11", [("A", "S11A", False), ("B", "S11B", False), ("C", "S11C", True)]))
    # 12 group over nested sub-commands and long names (help through groups)
    tops.append(Group("S12", [("Hw", "S7", False), ("Nested", "S9", False), ("Opts", "S8", False)]))
    # names that diverge inside characters sharing their lead byte (а/б = D0 B0/D0 B1, 記/誌 = E8 A8 98/E8 AA 8C,
    # 😀/😁 = F0 9F 98 80/81): the common continuation must stop on a character boundary
    tops.append(add(Enum("S19", [
        Cmd("Zhaba", name="жаба"),
        Cmd("Zhban", [Field("n", "u8", optional=True)], name="жбан"),
        Cmd("Ki", name="日記x"),
        Cmd("Shi", name="日誌y"),
        Cmd("Grin", name="e😀"),
        Cmd("Beam", name="e😁"),
    ])))
    # four groups, hidden one in the middle, a prefix split across three of them
    add(Enum("S20A", [Cmd("Conf", [Field("k", "str", optional=True)], doc="Configure"), Cmd("Connect", [Field("port", "u16")])]))
    add(Enum("S20B", [Cmd("Console"), Cmd("Copy", [Field("src", "str"), Field("dst", "str")])], title="Hidden tools"))
    add(Enum("S20C", [Cmd("Count", [Field("n", "u8", optional=True)]), Cmd("Co")], title="Counting"))
    add(Enum("S20D", [Cmd("Quit", doc="Leave")]))
    tops.append(Group("S20", [("A", "S20A", False), ("B", "S20B", True), ("C", "S20C", False), ("D", "S20D", False)]))
    # one name a full prefix of another, the shorter in an EARLIER group, the longer in a later one; hidden relatives
    add(Enum("S23A", [Cmd("Get", doc="Get it"), Cmd("Put", [Field("v", "u8")])]))
    add(Enum("S23B", [Cmd("GetLed", [Field("led", "u8")]), Cmd("PutAll"), Cmd("Getx")], title="Second"))
    add(Enum("S23C", [Cmd("GetSecret"), Cmd("Reset")], title="Hidden"))
    add(Enum("S23D", [Cmd("Reboot"), Cmd("Ge")]))
    tops.append(Group("S23", [("A", "S23A", False), ("B", "S23B", False), ("C", "S23C", True), ("D", "S23D", False)]))
    # catch-all RawCommand member in the MIDDLE of a group (completion and help must still see the later members)
    add(Enum("S26Late", [Cmd("GetLed", [Field("led", "u8")]), Cmd("GetAdc", [Field("adc", "u8")]), Cmd("Late")], title="Declared after the catch-all"))
    tops.append(Group("S26", [("Base", "S1", False), ("Other", "RawCommand", False), ("Late", "S26Late", False)]))
    # a user command that is itself called `help` (an ordinary command when the help facility is compiled out)
    tops.append(add(Enum("S25", [
        Cmd("Help", [Field("topic", "str", optional=True)], doc="The application's own help"),
        Cmd("Helm", doc="Steer"),
        Cmd("Halt", [Field("now", "bool", kind="flag", short=True, long=True)]),
    ])))
    # systematic prefix chains and many commands
    tops.append(add(Enum("S21", [Cmd(f"P{i}", name=n, doc=f"chain {n}") for i, n in enumerate(
        ["a", "ab", "abc", "abcd", "abcde", "b-x", "b-y", "b-xy", "c", "led1", "led10", "led2", "zz-top", "zz", "z"])])))
    # long names
    tops.append(add(Enum("S22", [
        Cmd("ConfigureNetworkInterface", [Field("ifname", "str")], doc="Configure an interface"),
        Cmd("ConfigureNetworkRoute", [Field("dest", "str"), Field("metric", "u8", optional=True)]),
        Cmd("ConfigurationDump"),
        Cmd("Con"),
        Cmd("ConfigureNetworkInterfaceAddressFamilyPreferenceOrder", doc="A very long command name"),
    ])))
    # explicit value names, a user's own -h option, options with very long rendered names
    tops.append(add(Enum("S24", [
        Cmd("Copy", [Field("src", "str", value_name="FROM"), Field("dst", "str", value_name="TO")], doc="Copy things"),
        Cmd("Ping", [Field("host", "str", kind="opt", short=True, long=True, value_name="ADDRESS"),
                     Field("count", "u8", kind="opt", optional=True, short=True, long=True),
                     Field("verbose", "bool", kind="flag", short=True, long=True)], doc="Ping a host"),
        Cmd("Key", [Field("key", "u8", kind="opt", long=True, value_name="SLOT"), Field("hex", "bool", kind="flag", short=True, long=True)]),
        Cmd("Tls", [Field("certificate_bundle_path_for_tls", "str", kind="opt", optional=True, long=True),
                    Field("x", "u8", optional=True)], doc="TLS setup"),
    ])))
    # 13..: random over a tiny syllable alphabet (different for every family seed)
    n_random = 5
    for i in range(n_random):
        ident = f"S{13 + i}"
        n = [3, 5, 8, 12, 2][i % 5]
        tops.append(add(random_enum(rng, ident, n, multibyte=(i == 2), enums=enums)))
    # one random group over two of the random enums
    taken18 = set()
    add(random_enum(rng, "S18A", 4, enums=enums, taken=taken18))
    add(random_enum(rng, "S18B", 4, enums=enums, taken=taken18))
    tops.append(Group("S18", [("A", "S18A", False), ("B", "S18B", rng.below(3) == 0)]))
    if seed != 0:
        # non-default families: more random structure (groups of 2-4 members with random hidden
        # flags, multi-byte names, nested sub-commands)
        for g in range(4):
            members = []
            taken = set()
            for m in range(2 + rng.below(3)):
                ident = f"R{g}M{m}"
                add(random_enum(rng, ident, 1 + rng.below(5), multibyte=(rng.below(3) == 0), enums=enums, taken=taken))
                members.append((f"V{m}", ident, rng.below(4) == 0))
            if all(h for (_, _, h) in members):
                members[0] = (members[0][0], members[0][1], False)
            if rng.below(3) == 0:
                members.append(("Other", "RawCommand", False))
            tops.append(Group(f"R{g}", members))
    return enums, tops


MANUAL_SET = r'''
// ---- a command set whose Autocomplete and Help are written by hand (derive with skip_autocomplete,
// ---- skip_help): help text that does not end its last line, completion that calls mark_partial() and merges once
#[derive(Debug, Command)]
#[command(skip_autocomplete, skip_help)]
#[allow(dead_code)]
pub enum Manual<'a> {
    Led { id: u8 },
    Adc { ch: u8 },
    Status,
    Say { text: &'a str },
    Stat,
}

const MANUAL_NAMES: [&str; 5] = ["led", "adc", "status", "say", "stat"];

impl embedded_cli::service::Autocomplete for Manual<'_> {
    #[cfg(feature = "autocomplete")]
    fn autocomplete(request: embedded_cli::autocomplete::Request<'_>, autocompletion: &mut embedded_cli::autocomplete::Autocompletion<'_>) {
        #[allow(irrefutable_let_patterns, unreachable_patterns)]
        if let embedded_cli::autocomplete::Request::CommandName(name) = request {
            // unlike the derived code (one merge per candidate) this one works the common
            // continuation out itself, says so when it is ambiguous, and merges once
            let mut common: Option<&str> = None;
            let mut matches = 0;
            for n in MANUAL_NAMES {
                if let Some(rest) = n.strip_prefix(name) {
                    matches += 1;
                    common = Some(match common {
                        None => rest,
                        Some(c) => {
                            let l = c.bytes().zip(rest.bytes()).take_while(|(a, b)| a == b).count();
                            &c[..l]
                        }
                    });
                }
            }
            if let Some(c) = common {
                if matches > 1 {
                    autocompletion.mark_partial();
                }
                autocompletion.merge_autocompletion(c);
            }
        }
    }
}

impl embedded_cli::service::Help for Manual<'_> {
    #[cfg(feature = "help")]
    fn command_count() -> usize {
        MANUAL_NAMES.len()
    }

    #[cfg(feature = "help")]
    fn list_commands<W: embedded_io::Write<Error = E>, E: embedded_io::Error>(
        writer: &mut embedded_cli::writer::Writer<'_, W, E>,
    ) -> Result<(), E> {
        writer.write_str("commands:")?;
        for n in MANUAL_NAMES {
            writer.write_str(" ")?;
            writer.write_str(n)?;
        }
        Ok(())
    }

    #[cfg(feature = "help")]
    fn command_help<W: embedded_io::Write<Error = E>, E: embedded_io::Error, F: FnMut(&mut embedded_cli::writer::Writer<'_, W, E>) -> Result<(), E>>(
        parent: &mut F,
        command: RawCommand<'_>,
        writer: &mut embedded_cli::writer::Writer<'_, W, E>,
    ) -> Result<(), embedded_cli::service::HelpError<E>> {
        if !MANUAL_NAMES.contains(&command.name()) {
            return Err(embedded_cli::service::HelpError::UnknownCommand);
        }
        writer.write_str("usage: ")?;
        parent(writer)?;
        writer.write_str(command.name())?;
        Ok(())
    }
}

pub struct DManual;
impl SetDef for DManual {
    type Ty = Manual<'static>;
    fn parse_dbg<'a>(raw: RawCommand<'a>) -> Result<String, ParseError<'a>> {
        <Manual<'a> as FromRaw<'a>>::parse(raw).map(|c| format!("{:?}", c))
    }
}

fn step_derived_manual(cli: &mut SimCli<'_>, b: u8, app: &mut App) -> Result<(), SimErr> {
    let mut p = Manual::processor(|h: &mut CliHandle<'_, Sink, SimErr>, cmd: Manual<'_>| app.handle_typed(h, format!("{:?}", cmd)));
    cli.process_byte::<Manual<'_>, _>(b, &mut p)
}
'''

MANUAL_META = r'''    SetMeta {
        ident: "Manual",
        names: &["led", "adc", "status", "say", "stat"],
        grouped: false,
        lines: &["help", "help led", "help nosuch", "led 7", "led", "led zz", "led 7 --zzz", "adc 3", "status", "stat", "say abc", "say \"two words\"", "status --help", "led -h", "nosuch"],
        valid_lines: &["led 7", "adc 3", "status", "stat", "say abc"],
        invalid_lines: &["led", "led zz", "led 7 --zzz"],
    },'''


def main():
    seed = int(sys.argv[1])
    out_path = sys.argv[2]
    enums, tops = build_family(seed)
    groups = {t.ident: t for t in tops if isinstance(t, Group)}
    out = []
    out.append(f"// @generated by tools/gen_cmdsets.py {seed} - do not edit")
    out.append("#![allow(clippy::all, non_snake_case)]")
    out.append("use embedded_cli::command::RawCommand;")
    out.append("use embedded_cli::service::{FromRaw, ParseError};")
    out.append("use embedded_cli::{Command, CommandGroup};")
    out.append("")
    out.append("use embedded_cli::cli::CliHandle;")
    out.append("")
    out.append("use crate::app::{step_raw_processor, step_with, App, RawSet, SetDef, SetMeta, SimCli};")
    out.append("use crate::sink::{SimErr, Sink};")
    out.append("")
    out.append(f"pub const FAMILY_SEED: u64 = {seed};")
    out.append("")
    for e in enums.values():
        emit_enum(e, enums, out)
    for g in groups.values():
        lt = any(ty == "RawCommand" or enums[ty].uses_lt(enums) for (_, ty, _) in g.members)
        out.append("#[derive(Debug, CommandGroup)]")
        out.append("#[allow(dead_code)]")
        out.append(f"pub enum {g.ident}{'<' + chr(39) + 'a>' if lt else ''} {{")
        for (v, ty, hidden) in g.members:
            if hidden:
                out.append("    #[group(hidden)]")
            if ty == "RawCommand":
                out.append(f"    {v}(RawCommand<'a>),")
            else:
                out.append(f"    {v}({ty}{'<' + chr(39) + 'a>' if enums[ty].uses_lt(enums) else ''}),")
        out.append("}")
        out.append("")

    def top_lt(t):
        if isinstance(t, Group):
            return any(ty == "RawCommand" or enums[ty].uses_lt(enums) for (_, ty, _) in t.members)
        return t.uses_lt(enums)

    for t in tops:
        lt = top_lt(t)
        out.append(f"pub struct D{t.ident};")
        out.append(f"impl SetDef for D{t.ident} {{")
        out.append(f"    type Ty = {t.ident}{'<' + chr(39) + 'static>' if lt else ''};")
        out.append("    fn parse_dbg<'a>(raw: RawCommand<'a>) -> Result<String, ParseError<'a>> {")
        out.append(f"        <{t.ident}{'<' + chr(39) + 'a>' if lt else ''} as FromRaw<'a>>::parse(raw).map(|c| format!(\"{{:?}}\", c))")
        out.append("    }")
        out.append("}")
        out.append("")
        ty_ = f"{t.ident}{'<' + chr(39) + '_>' if lt else ''}"
        out.append(f"fn step_derived_{t.ident}(cli: &mut SimCli<'_>, b: u8, app: &mut App) -> Result<(), SimErr> {{")
        out.append(f"    let mut p = {t.ident}::processor(|h: &mut CliHandle<'_, Sink, SimErr>, cmd: {ty_}| app.handle_typed(h, format!(\"{{:?}}\", cmd)));")
        out.append(f"    cli.process_byte::<{ty_}, _>(b, &mut p)")
        out.append("}")
        out.append("")

    out.append(MANUAL_SET)
    out.append("pub static SETS: &[SetMeta] = &[")
    out.append('    SetMeta { ident: "Raw", names: &[], grouped: false, lines: &["raw 1 2", "x", "cmd \\"a b\\" -f --long -- -v", "help", "help x", "x --help", "a -h b"], valid_lines: &[], invalid_lines: &[] },')
    for t in tops:
        names = visible_names(t, enums)
        lines, valid, invalid = set_lines(t, enums, groups)
        out.append("    SetMeta {")
        out.append(f'        ident: "{t.ident}",')
        out.append("        names: &[" + ", ".join(rs_str(n) for n in names) + "],")
        out.append(f"        grouped: {'true' if isinstance(t, Group) else 'false'},")
        out.append("        lines: &[")
        for l in lines:
            out.append("            " + rs_str(l) + ",")
        out.append("        ],")
        out.append("        valid_lines: &[")
        for l in valid:
            out.append("            " + rs_str(l) + ",")
        out.append("        ],")
        out.append("        invalid_lines: &[")
        for l in invalid:
            out.append("            " + rs_str(l) + ",")
        out.append("        ],")
        out.append("    },")
    out.append(MANUAL_META)
    out.append("];")
    out.append("")
    out.append("pub fn step(set: usize, derived: bool, cli: &mut SimCli<'_>, b: u8, app: &mut App) -> Result<(), SimErr> {")
    out.append("    match (set, derived) {")
    out.append("        (0, false) => step_with::<RawSet>(cli, b, app),")
    out.append("        (0, true) => step_raw_processor(cli, b, app),")
    for i, t in enumerate(tops):
        out.append(f"        ({i + 1}, false) => step_with::<D{t.ident}>(cli, b, app),")
        out.append(f"        ({i + 1}, true) => step_derived_{t.ident}(cli, b, app),")
    out.append(f"        ({len(tops) + 1}, false) => step_with::<DManual>(cli, b, app),")
    out.append(f"        ({len(tops) + 1}, true) => step_derived_manual(cli, b, app),")
    out.append('        _ => panic!("harness: no such command set"),')
    out.append("    }")
    out.append("}")
    out.append("")
    open(out_path, "w").write("\n".join(out))


if __name__ == "__main__":
    main()
