#!/usr/bin/env python3
"""Regression over the kept seeded changes: every patch under /verif/seeded/<id>/ that was caught by
the check of its own property must still be caught after the checks changed.

  tools/seeded_recheck.py [id-substring ...]

Applies each patch to /repo (VERIF_REPO), runs `./check <property> quick` with evidence/replays redirected,
restores the tree. Prints the ones that are no longer caught; exit 1 if there are any."""
import json
import os
import shutil
import subprocess
import sys

ROOT = os.path.dirname(os.path.dirname(os.path.abspath(__file__)))
REPO = os.environ.get("VERIF_REPO", "/repo")


def sh(cmd, cwd=None, env=None):
    return subprocess.run(cmd, cwd=cwd, env=env, shell=isinstance(cmd, str), stdout=subprocess.PIPE, stderr=subprocess.STDOUT, text=True)


def main():
    want = sys.argv[1:]
    if sh("git status --porcelain", cwd=REPO).stdout.strip():
        print("/repo is not clean")
        return 2
    lost = []
    n = 0
    for sid in sorted(os.listdir(os.path.join(ROOT, "seeded"))):
        if want and not any(w in sid for w in want):
            continue
        d = os.path.join(ROOT, "seeded", sid)
        meta = json.load(open(os.path.join(d, "meta.json")))
        prop = meta["property"]
        if prop not in meta.get("caught_by", []):
            continue
        scratch = f"/tmp/ecli-recheck-{sid}"
        env = dict(os.environ, VERIF_EVIDENCE_DIR=os.path.join(scratch, "evidence"), VERIF_REPLAY_DIR=os.path.join(scratch, "replays"))
        try:
            r = sh(["git", "apply", os.path.join(d, "patch.diff")], cwd=REPO)
            if r.returncode != 0:
                print(f"[{sid}] patch does not apply any more: {r.stdout[:200]}")
                continue
            r = sh(["./check", prop, "quick"], cwd=ROOT, env=env)
            caught = r.returncode == 1 and "VIOLATION property=" in r.stdout
            n += 1
            chk = next((l.strip() for l in r.stdout.splitlines() if l.strip().startswith("check=")), "")
            print(f"[{sid}] {prop}: {'caught' if caught else 'NOT CAUGHT ANY MORE'} {chk[:90]}", flush=True)
            if not caught:
                lost.append(sid)
        finally:
            sh("git checkout -- .", cwd=REPO)
            shutil.rmtree(scratch, ignore_errors=True)
    print(f"{n - len(lost)}/{n} still caught; lost: {lost}")
    return 1 if lost else 0


if __name__ == "__main__":
    sys.exit(main())
