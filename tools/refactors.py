#!/usr/bin/env python3
"""False-alarm probe: behaviour-preserving changes (refactorings written by sub-agents
that were given the property statements and asked to keep all of them true) are
applied to /repo one at a time; every check's quick tier must stay silent.

  tools/refactors.py <dir-with-<n>/patch.diff> <id-prefix> [props...]
  tools/refactors.py /verif/refactors RECHECK [props...]     re-run the kept ones after the checks changed

Each patch is first checked in place: it must apply, build with every feature
subset + verif-hooks, and keep the existing suite green; then all quick checks run
(evidence/replays redirected to a scratch directory) and /repo is restored.
Kept under /verif/refactors/<id>/ with meta.json.
"""
import json
import os
import shutil
import subprocess
import sys
import time

ROOT = os.path.dirname(os.path.dirname(os.path.abspath(__file__)))
REPO = os.environ.get("VERIF_REPO", "/repo")
ALL = ["C01", "C02", "C03", "C04", "C05", "C06", "C10", "C11", "C13", "C14", "C15", "C16"]


def sh(cmd, cwd=None, env=None):
    return subprocess.run(cmd, cwd=cwd, env=env, shell=isinstance(cmd, str), stdout=subprocess.PIPE, stderr=subprocess.STDOUT, text=True)


def main():
    src, prefix = sys.argv[1], sys.argv[2]
    props = sys.argv[3:] or ALL
    if sh("git status --porcelain", cwd=REPO).stdout.strip():
        print("/repo is not clean")
        return 2
    rc = 0
    for n in sorted(os.listdir(src)):
        patch = os.path.join(src, n, "patch.diff")
        if not os.path.exists(patch):
            continue
        rid = n if prefix == "RECHECK" else f"{prefix}-{n}"
        scratch = f"/tmp/ecli-refactor-scratch-{rid}"
        env = dict(os.environ, VERIF_EVIDENCE_DIR=os.path.join(scratch, "evidence"), VERIF_REPLAY_DIR=os.path.join(scratch, "replays"))
        meta = dict(id=rid, source=f"sub-agent given all claimed property statements, asked for behaviour-preserving changes ({src})")
        try:
            r = sh(["git", "apply", patch], cwd=REPO)
            if r.returncode != 0:
                print(f"[{rid}] patch does not apply: {r.stdout[:300]}")
                continue
            t = sh("cargo test --workspace --offline --no-fail-fast 2>&1 | grep -E '^test result'", cwd=REPO)
            suite_ok = bool(t.stdout.strip()) and all(" 0 failed" in l for l in t.stdout.splitlines())
            meta["existing_suite_passes"] = suite_ok
            results = {}
            alarms = []
            for p in props:
                t0 = time.time()
                r = sh(["./check", p, "quick"], cwd=ROOT, env=env)
                results[p] = dict(exit=r.returncode, seconds=round(time.time() - t0, 1))
                if r.returncode != 0:
                    lines = [l.strip() for l in r.stdout.splitlines() if "VIOLATION" in l or l.strip().startswith("check=") or "HARNESS" in l or "error" in l.lower()]
                    results[p]["report"] = lines[:6]
                    # keep the replay file for analysis
                    os.makedirs(os.path.join(ROOT, "refactors", rid), exist_ok=True)
                    rp = os.path.join(scratch, "replays")
                    if os.path.isdir(rp):
                        for f in os.listdir(rp):
                            shutil.copy(os.path.join(rp, f), os.path.join(ROOT, "refactors", rid, f))
                    alarms.append(p)
            prev = {}
            mp = os.path.join(ROOT, "refactors", rid, "meta.json")
            if prefix == "RECHECK" and os.path.exists(mp):
                prev = json.load(open(mp)).get("checks", {})
            prev.update(results)  # a partial re-run keeps the results of the checks it did not run
            meta["checks"] = prev
            meta["alarms"] = sorted(p for p, v in prev.items() if v.get("exit", 0) != 0)
            print(f"[{rid}] suite={'pass' if suite_ok else 'FAIL'} alarms={alarms} {[results[p].get('report') for p in alarms]}", flush=True)
            if alarms:
                rc = 1
        finally:
            sh("git checkout -- .", cwd=REPO)
            sh("git clean -fdq embedded-cli embedded-cli-macros", cwd=REPO)
            shutil.rmtree(scratch, ignore_errors=True)
        dst = os.path.join(ROOT, "refactors", rid)
        os.makedirs(dst, exist_ok=True)
        if os.path.abspath(patch) != os.path.abspath(os.path.join(dst, "patch.diff")):
            shutil.copy(patch, os.path.join(dst, "patch.diff"))
        notes = os.path.join(src, n, "notes.md")
        if os.path.exists(notes) and os.path.abspath(notes) != os.path.abspath(os.path.join(dst, "notes.md")):
            shutil.copy(notes, os.path.join(dst, "notes.md"))
        json.dump(meta, open(os.path.join(dst, "meta.json"), "w"), indent=1)
    return rc


if __name__ == "__main__":
    sys.exit(main())
