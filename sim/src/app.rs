//! The Application actor: handler scripts, `Cli::write` closures, and the log of
//! what the library handed to application code.

use core::fmt::Write as _;
use std::marker::PhantomData;

use embedded_cli::arguments::Arg as CliArg;
use embedded_cli::cli::{Cli, CliHandle};
use embedded_cli::command::RawCommand;
use embedded_cli::service::{Autocomplete, CommandProcessor, Help, ParseError, ProcessError};
use embedded_cli::writer::Writer;

use crate::sink::{SimErr, Sink};
use crate::trace::{HScript, Ret, WCall, WKind, PROMPTS};

/// Command and history buffers are `&mut [u8]` slices of a size chosen at run time,
/// i.e. the library's own `impl Buffer for &mut [u8]` is what runs
pub type SimCli<'b> = Cli<Sink, SimErr, &'b mut [u8], &'b mut [u8]>;

/// Argument as received by the handler. Strings are kept as raw bytes: the
/// harness validates UTF-8 itself (C02).
#[derive(Clone, Debug, PartialEq, Eq)]
pub enum ObsArg {
    DoubleDash,
    Long(Vec<u8>),
    Short(u32),
    Value(Vec<u8>),
}

#[derive(Clone, Debug, PartialEq, Eq)]
pub enum ObsParseError {
    MissingRequiredArgument { name: Vec<u8> },
    ParseValueError { value: Vec<u8>, expected: Vec<u8> },
    UnexpectedArgument { value: Vec<u8> },
    UnexpectedLongOption { name: Vec<u8> },
    UnexpectedShortOption { name: u32 },
    UnknownCommand,
    Other,
}

impl ObsParseError {
    fn from(e: &ParseError<'_>) -> Self {
        match e {
            ParseError::MissingRequiredArgument { name } => ObsParseError::MissingRequiredArgument {
                name: name.as_bytes().to_vec(),
            },
            ParseError::ParseValueError { value, expected } => ObsParseError::ParseValueError {
                value: value.as_bytes().to_vec(),
                expected: expected.as_bytes().to_vec(),
            },
            ParseError::UnexpectedArgument { value } => ObsParseError::UnexpectedArgument {
                value: value.as_bytes().to_vec(),
            },
            ParseError::UnexpectedLongOption { name } => ObsParseError::UnexpectedLongOption {
                name: name.as_bytes().to_vec(),
            },
            ParseError::UnexpectedShortOption { name } => ObsParseError::UnexpectedShortOption {
                name: *name as u32,
            },
            ParseError::UnknownCommand => ObsParseError::UnknownCommand,
            _ => ObsParseError::Other,
        }
    }
}

#[derive(Clone, Debug)]
pub struct Dispatch {
    pub name: Vec<u8>,
    pub args: Vec<ObsArg>,
    /// Result of the real derived parser (Debug rendering), if it was run
    pub parsed: Option<Result<String, ObsParseError>>,
    /// Did the handler return the parse error to the library?
    pub returned_parse_error: bool,
    /// Came through the derive-generated `processor()`: only the typed command is seen
    pub typed: bool,
}

impl Dispatch {
    /// Every string / char in here is well-formed
    pub fn all_valid(&self) -> bool {
        std::str::from_utf8(&self.name).is_ok()
            && self.args.iter().all(|a| match a {
                ObsArg::DoubleDash => true,
                ObsArg::Long(v) | ObsArg::Value(v) => std::str::from_utf8(v).is_ok(),
                ObsArg::Short(c) => char::from_u32(*c).is_some(),
            })
    }
}

pub struct App {
    pub script: HScript,
    pub sink: Sink,
    /// Dispatches of the current event
    pub log: Vec<Dispatch>,
    /// Text the handler asked to be written during the current event (with the
    /// line feeds the `*ln` calls append), as far as its calls returned Ok
    pub handler_text: String,
    /// All of the script's calls returned Ok
    pub handler_calls_ok: bool,
    pub handler_set_prompt: Option<usize>,
    pub total_dispatches: u64,
}

impl App {
    pub fn new(sink: Sink) -> Self {
        App {
            script: HScript::default(),
            sink,
            log: Vec::new(),
            handler_text: String::new(),
            handler_calls_ok: true,
            handler_set_prompt: None,
            total_dispatches: 0,
        }
    }

    pub fn begin_event(&mut self) {
        self.log.clear();
        self.handler_text.clear();
        self.handler_calls_ok = true;
        self.handler_set_prompt = None;
    }

    pub fn handle<'a>(
        &mut self,
        cli: &mut CliHandle<'_, Sink, SimErr>,
        raw: RawCommand<'a>,
        parse: impl FnOnce(RawCommand<'a>) -> Result<String, ParseError<'a>>,
    ) -> Result<(), ProcessError<'a, SimErr>> {
        self.total_dispatches += 1;
        let mut d = Dispatch {
            name: raw.name().as_bytes().to_vec(),
            args: raw
                .args()
                .args()
                .map(|a| match a {
                    CliArg::DoubleDash => ObsArg::DoubleDash,
                    CliArg::LongOption(n) => ObsArg::Long(n.as_bytes().to_vec()),
                    CliArg::ShortOption(c) => ObsArg::Short(c as u32),
                    CliArg::Value(v) => ObsArg::Value(v.as_bytes().to_vec()),
                })
                .collect(),
            parsed: None,
            returned_parse_error: false,
            typed: false,
        };
        // The derived parser is only run on well-formed input: handing ill-formed
        // strings to Debug formatting would be the harness misbehaving.
        let mut parse_err: Option<ParseError<'a>> = None;
        if d.all_valid() {
            match parse(raw.clone()) {
                Ok(dbg) => d.parsed = Some(Ok(dbg)),
                Err(e) => {
                    d.parsed = Some(Err(ObsParseError::from(&e)));
                    parse_err = Some(e);
                }
            }
        }

        let script = self.script.clone();
        if let Some(p) = script.pre_prompt {
            cli.set_prompt(PROMPTS[p]);
            self.handler_set_prompt = Some(p);
        }
        if let (Some(p), true) = (script.prompt, script.prompt_first) {
            cli.set_prompt(PROMPTS[p]);
            self.handler_set_prompt = Some(p);
        }
        let res = run_calls(cli.writer(), &script.calls, &self.sink, &mut self.handler_text);
        if let Err(e) = res {
            self.handler_calls_ok = false;
            self.log.push(d);
            return Err(ProcessError::WriteError(e));
        }
        if let (Some(p), false) = (script.prompt, script.prompt_first) {
            cli.set_prompt(PROMPTS[p]);
            self.handler_set_prompt = Some(p);
        }
        let out = match script.ret {
            Ret::Ok => Ok(()),
            Ret::Parse => match parse_err {
                Some(e) => {
                    d.returned_parse_error = true;
                    Err(ProcessError::ParseError(e))
                }
                None => Ok(()),
            },
            Ret::AppErr => Err(ProcessError::WriteError(self.sink.0.borrow_mut().make_app_err())),
        };
        self.log.push(d);
        out
    }
}

impl App {
    /// Handler body behind the `processor()` generated by the derive macro: the library
    /// has already parsed the command (and reports parse errors itself)
    pub fn handle_typed(&mut self, cli: &mut CliHandle<'_, Sink, SimErr>, dbg: String) -> Result<(), SimErr> {
        self.total_dispatches += 1;
        let d = Dispatch {
            name: Vec::new(),
            args: Vec::new(),
            parsed: Some(Ok(dbg)),
            returned_parse_error: false,
            typed: true,
        };
        self.finish_typed(cli, d)
    }

    /// Handler body behind `RawCommand::processor`
    pub fn handle_raw_processor(&mut self, cli: &mut CliHandle<'_, Sink, SimErr>, raw: RawCommand<'_>) -> Result<(), SimErr> {
        self.total_dispatches += 1;
        let d = Dispatch {
            name: raw.name().as_bytes().to_vec(),
            args: raw
                .args()
                .args()
                .map(|a| match a {
                    CliArg::DoubleDash => ObsArg::DoubleDash,
                    CliArg::LongOption(n) => ObsArg::Long(n.as_bytes().to_vec()),
                    CliArg::ShortOption(c) => ObsArg::Short(c as u32),
                    CliArg::Value(v) => ObsArg::Value(v.as_bytes().to_vec()),
                })
                .collect(),
            parsed: None,
            returned_parse_error: false,
            typed: false,
        };
        self.finish_typed(cli, d)
    }

    fn finish_typed(&mut self, cli: &mut CliHandle<'_, Sink, SimErr>, d: Dispatch) -> Result<(), SimErr> {
        let script = self.script.clone();
        if let Some(p) = script.pre_prompt {
            cli.set_prompt(PROMPTS[p]);
            self.handler_set_prompt = Some(p);
        }
        if let (Some(p), true) = (script.prompt, script.prompt_first) {
            cli.set_prompt(PROMPTS[p]);
            self.handler_set_prompt = Some(p);
        }
        let res = run_calls(cli.writer(), &script.calls, &self.sink, &mut self.handler_text);
        if let Err(e) = res {
            self.handler_calls_ok = false;
            self.log.push(d);
            return Err(e);
        }
        if let (Some(p), false) = (script.prompt, script.prompt_first) {
            cli.set_prompt(PROMPTS[p]);
            self.handler_set_prompt = Some(p);
        }
        self.log.push(d);
        match script.ret {
            Ret::Ok | Ret::Parse => Ok(()),
            Ret::AppErr => Err(self.sink.0.borrow_mut().make_app_err()),
        }
    }
}

/// Runs writer calls through all the write paths the library offers.
/// `text` collects what was asked for (spec-level text) for calls that succeeded.
pub fn run_calls(
    w: &mut Writer<'_, Sink, SimErr>,
    calls: &[WCall],
    sink: &Sink,
    text: &mut String,
) -> Result<(), SimErr> {
    for c in calls {
        let t = c.text.as_str();
        match c.kind {
            WKind::Str => w.write_str(t)?,
            WKind::Ln => w.writeln_str(t)?,
            WKind::Ufmt => ufmt::uwrite!(w, "{}", t)?,
            WKind::UfmtLn => ufmt::uwriteln!(w, "{}", t)?,
            WKind::Fmt => {
                if write!(w, "{}", t).is_err() {
                    return Err(fmt_error(sink));
                }
            }
            WKind::FmtLn => {
                if writeln!(w, "{}", t).is_err() {
                    return Err(fmt_error(sink));
                }
            }
            WKind::UfmtChars => {
                for ch in t.chars() {
                    // ufmt-write 0.1.0's default `uWrite::write_char` (which the library's Writer
                    // inherits) builds its scratch buffer with mem::uninitialized. Miri rejects
                    // that; it is the dependency's code, not the library's, so under Miri the
                    // character is encoded here instead.
                    #[cfg(not(miri))]
                    ufmt::uwrite!(w, "{}", ch)?;
                    #[cfg(miri)]
                    {
                        let mut b = [0u8; 4];
                        w.write_str(ch.encode_utf8(&mut b))?;
                    }
                }
            }
            WKind::FmtChars => {
                for ch in t.chars() {
                    if write!(w, "{}", ch).is_err() {
                        return Err(fmt_error(sink));
                    }
                }
            }
            WKind::ListElem => {
                let (name, desc) = c.list_parts();
                w.write_list_element(name, desc, crate::trace::LIST_ELEM_WIDTH)?;
            }
            WKind::Title => w.write_title(t)?,
            WKind::UfmtArgs => ufmt::uwrite!(w, "[{}]{}{}", t, 7u8, "")?,
            WKind::FmtArgs => {
                if write!(w, "[{}]{}{}", t, 7u8, "").is_err() {
                    return Err(fmt_error(sink));
                }
            }
        }
        text.push_str(&c.spec_text());
    }
    Ok(())
}

/// `core::fmt::Write` loses the sink's error value; the application hands back
/// the error the sink produced last (that is what a real application would keep)
fn fmt_error(sink: &Sink) -> SimErr {
    let last = sink.0.borrow().last_err();
    match last {
        Some(e) => e,
        None => sink.0.borrow_mut().make_app_err(),
    }
}

/// Spec-level text of a list of writer calls
pub fn calls_text(calls: &[WCall]) -> String {
    let mut s = String::new();
    for c in calls {
        s.push_str(&c.spec_text());
    }
    s
}

/// A command set: the type given to `process_byte` plus its real derived parser
pub trait SetDef {
    type Ty: Autocomplete + Help;
    fn parse_dbg<'a>(raw: RawCommand<'a>) -> Result<String, ParseError<'a>>;
}

pub struct Proc<'x, D: SetDef> {
    pub app: &'x mut App,
    pub _ph: PhantomData<fn() -> D>,
}

impl<'x, D: SetDef> CommandProcessor<Sink, SimErr> for Proc<'x, D> {
    fn process<'a>(
        &mut self,
        cli: &mut CliHandle<'_, Sink, SimErr>,
        raw: RawCommand<'a>,
    ) -> Result<(), ProcessError<'a, SimErr>> {
        self.app.handle(cli, raw, |r| D::parse_dbg(r))
    }
}

pub fn step_with<D: SetDef>(cli: &mut SimCli<'_>, b: u8, app: &mut App) -> Result<(), SimErr> {
    let mut p = Proc::<D> {
        app,
        _ph: PhantomData,
    };
    cli.process_byte::<D::Ty, _>(b, &mut p)
}

/// Static description of a command set, for the oracle and the generator
#[derive(Debug)]
pub struct SetMeta {
    pub ident: &'static str,
    /// Visible command names in the order completion sees them
    pub names: &'static [&'static str],
    /// Has command groups
    pub grouped: bool,
    /// Lines worth typing with this set (valid, each parse error kind, help forms)
    pub lines: &'static [&'static str],
    /// Lines that are valid invocations by construction of the declaration (the generator
    /// knows what it declared): typed exactly like this, they must parse and reach a typed handler
    pub valid_lines: &'static [&'static str],
    /// Lines that the derived parser must reject by construction of the declaration (undeclared
    /// option / unparsable value / missing required argument of a command that declares fields)
    pub invalid_lines: &'static [&'static str],
}

/// Set 0 through `RawCommand::processor`
pub fn step_raw_processor(cli: &mut SimCli<'_>, b: u8, app: &mut App) -> Result<(), SimErr> {
    let mut p = RawCommand::processor(|h: &mut CliHandle<'_, Sink, SimErr>, raw: RawCommand<'_>| app.handle_raw_processor(h, raw));
    cli.process_byte::<RawCommand<'_>, _>(b, &mut p)
}

/// Set 0: no derive at all
pub struct RawSet;

impl SetDef for RawSet {
    type Ty = RawCommand<'static>;
    fn parse_dbg<'a>(raw: RawCommand<'a>) -> Result<String, ParseError<'a>> {
        use embedded_cli::service::FromRaw;
        RawCommand::parse(raw).map(|c| format!("{:?}", c.name()))
    }
}
