//! Trace generator: a pure function of (profile, seed). It never looks at what
//! the system does. The first draws of a run fix its swarm configuration
//! (buffer sizes, prompt, command set, which key kinds / application events /
//! faults exist in this run and at what rates), the rest is the event list.

use crate::cmdsets_gen::SETS;
use crate::prng::Rng;
use crate::trace::{Cfg, Ev, Event, Fault, HScript, Ret, Trace, WCall, WKind, PROMPTS};

#[derive(Clone, Debug)]
pub struct Profile {
    pub name: &'static str,
    // ---- single key units (weights)
    pub w_letter: u32,
    pub w_cmd_letter: u32,
    pub w_multi: u32,
    pub w_boundary: u32,
    pub w_space: u32,
    pub w_quote: u32,
    pub w_backslash: u32,
    pub w_dash: u32,
    pub w_bs: u32,
    pub w_left: u32,
    pub w_right: u32,
    pub w_up: u32,
    pub w_down: u32,
    pub w_tab: u32,
    pub w_enter: u32,
    pub w_csi_other: u32,
    pub w_c0: u32,
    pub w_lone_esc: u32,
    // ---- macros (weights, same pool)
    pub m_type_line: u32,
    pub m_recall_edit: u32,
    pub m_walk_insert: u32,
    pub m_fill: u32,
    pub m_resubmit: u32,
    pub m_term_run: u32,
    pub m_partial_tab: u32,
    pub m_fragment: u32,
    pub m_noise: u32,
    pub m_del: u32,
    // ---- application events: chance (per 1000) before each key unit / inside a unit
    pub p_write: u32,
    pub p_prompt: u32,
    pub p_set: u32,
    pub p_handler: u32,
    pub p_inside: u32,
    // ---- configuration
    /// weights for [0, 1, 2..=8, 9..=24, 25..=64, 80/256]
    pub cmd_caps: [u32; 6],
    pub hist_caps: [u32; 6],
    /// weights for sink [pass-through, short, buffered, buffered+short]
    pub sinks: [u32; 4],
    /// per 1000: run has random sink faults
    pub p_fault_run: u32,
    /// key units per run
    pub units: (usize, usize),
    /// restrict command sets (empty: all)
    pub sets: &'static [usize],
    /// handler scripts with output (per 1000 of handler events)
    pub p_handler_output: u32,
}

const BASE: Profile = Profile {
    name: "mix",
    w_letter: 30,
    w_cmd_letter: 30,
    w_multi: 12,
    w_boundary: 4,
    w_space: 14,
    w_quote: 6,
    w_backslash: 3,
    w_dash: 6,
    w_bs: 10,
    w_left: 10,
    w_right: 6,
    w_up: 6,
    w_down: 4,
    w_tab: 8,
    w_enter: 12,
    w_csi_other: 2,
    w_c0: 2,
    w_lone_esc: 1,
    m_type_line: 14,
    m_recall_edit: 4,
    m_walk_insert: 4,
    m_fill: 1,
    m_resubmit: 3,
    m_term_run: 2,
    m_partial_tab: 6,
    m_fragment: 0,
    m_noise: 0,
    m_del: 0,
    p_write: 25,
    p_prompt: 15,
    p_set: 10,
    p_handler: 40,
    p_inside: 30,
    cmd_caps: [1, 1, 6, 10, 6, 1],
    hist_caps: [1, 1, 6, 10, 6, 1],
    sinks: [5, 2, 2, 1],
    p_fault_run: 0,
    units: (10, 70),
    sets: &[],
    p_handler_output: 500,
};

pub fn profile(name: &str) -> Option<Profile> {
    let p = match name {
        "mix" => BASE,
        "decode" => Profile {
            name: "decode",
            w_enter: 40,
            w_csi_other: 25,
            w_c0: 25,
            w_lone_esc: 15,
            w_up: 10,
            w_down: 10,
            w_left: 10,
            w_right: 10,
            w_multi: 25,
            w_boundary: 10,
            m_term_run: 25,
            m_type_line: 4,
            m_partial_tab: 2,
            p_write: 40,
            p_prompt: 30,
            p_set: 20,
            p_inside: 150,
            ..BASE
        },
        "edit" => Profile {
            name: "edit",
            w_letter: 30,
            w_cmd_letter: 5,
            w_multi: 40,
            w_boundary: 12,
            w_bs: 35,
            w_left: 40,
            w_right: 25,
            w_up: 3,
            w_down: 2,
            w_tab: 3,
            w_enter: 3,
            m_type_line: 2,
            m_walk_insert: 12,
            m_fill: 6,
            m_partial_tab: 2,
            p_write: 5,
            p_prompt: 5,
            p_set: 3,
            cmd_caps: [2, 3, 20, 8, 2, 1],
            ..BASE
        },
        "term" => Profile {
            name: "term",
            p_write: 90,
            p_prompt: 70,
            p_set: 15,
            p_handler: 80,
            p_inside: 120,
            w_left: 25,
            w_tab: 12,
            m_recall_edit: 8,
            sinks: [3, 3, 3, 3],
            ..BASE
        },
        "hist" => Profile {
            name: "hist",
            w_up: 40,
            w_down: 25,
            w_enter: 25,
            w_multi: 15,
            w_tab: 2,
            m_resubmit: 30,
            m_recall_edit: 20,
            m_type_line: 20,
            m_partial_tab: 1,
            p_write: 8,
            p_prompt: 5,
            hist_caps: [2, 2, 20, 14, 3, 1],
            cmd_caps: [1, 1, 8, 12, 4, 1],
            ..BASE
        },
        "tab" => Profile {
            name: "tab",
            w_tab: 40,
            w_cmd_letter: 50,
            w_letter: 8,
            w_space: 20,
            w_left: 20,
            w_multi: 6,
            w_up: 2,
            w_down: 1,
            m_partial_tab: 45,
            m_type_line: 5,
            p_set: 40,
            p_write: 8,
            p_prompt: 8,
            cmd_caps: [1, 2, 14, 16, 4, 1],
            ..BASE
        },
        "frame" => Profile {
            name: "frame",
            p_write: 110,
            p_handler: 140,
            p_prompt: 20,
            p_inside: 60,
            m_type_line: 30,
            w_enter: 20,
            w_left: 15,
            m_fill: 3,
            m_recall_edit: 6,
            p_handler_output: 850,
            ..BASE
        },
        "flush" => Profile {
            name: "flush",
            sinks: [0, 0, 3, 2],
            p_write: 50,
            p_prompt: 40,
            p_handler: 80,
            m_type_line: 25,
            ..BASE
        },
        "rxfault" => Profile {
            name: "rxfault",
            m_fragment: 40,
            m_noise: 12,
            m_del: 3,
            w_multi: 25,
            w_boundary: 8,
            w_dash: 12,
            m_type_line: 12,
            w_enter: 18,
            w_up: 8,
            w_tab: 8,
            ..BASE
        },
        "faultrand" => Profile {
            name: "faultrand",
            p_fault_run: 1000,
            p_write: 40,
            p_prompt: 30,
            p_handler: 80,
            m_type_line: 25,
            ..BASE
        },
        // scenario corpus for the C14 fault sweep: short sessions that are guaranteed to
        // contain the interesting calls (see `scenario`)
        "scen" => Profile {
            name: "scen",
            units: (4, 10),
            sinks: [6, 2, 2, 1],
            ..BASE
        },
        // big buffers and long lines: more than 255 bytes / characters / continuation bytes / tokens
        "long" => Profile {
            name: "long",
            units: (30, 120),
            cmd_caps: [0, 0, 0, 0, 0, 1],
            hist_caps: [0, 0, 0, 1, 2, 6],
            m_fill: 40,
            w_left: 20,
            w_right: 8,
            w_bs: 8,
            w_enter: 6,
            w_up: 6,
            m_type_line: 3,
            m_partial_tab: 2,
            p_write: 25,
            p_prompt: 15,
            ..BASE
        },
        // a history buffer beyond 64 KiB holding lines of about a thousand bytes (see `generate`)
        "giant" => Profile {
            name: "giant",
            units: (10, 20),
            ..BASE
        },
        // few, very long sessions: hundreds of submissions, the history wraps many times
        "marathon" => Profile {
            name: "marathon",
            units: (600, 1500),
            w_enter: 30,
            m_type_line: 20,
            m_resubmit: 15,
            m_recall_edit: 10,
            w_up: 15,
            w_down: 8,
            m_fill: 0,
            p_write: 6,
            p_prompt: 4,
            p_set: 3,
            p_handler: 10,
            p_inside: 10,
            hist_caps: [0, 1, 8, 10, 6, 2],
            cmd_caps: [0, 1, 4, 10, 8, 2],
            ..BASE
        },
        "tiny" => Profile {
            name: "tiny",
            cmd_caps: [6, 6, 12, 1, 0, 0],
            hist_caps: [6, 6, 12, 1, 0, 0],
            m_fill: 6,
            m_resubmit: 10,
            w_multi: 25,
            w_boundary: 10,
            ..BASE
        },
        _ => return None,
    };
    Some(p)
}

pub const PROFILES: &[&str] = &[
    "mix", "decode", "edit", "term", "hist", "tab", "frame", "flush", "rxfault", "faultrand", "tiny", "marathon", "long", "giant",
];

const MULTI: &[char] = &['é', 'ж', 'λ', 'ß', '日', '本', '€', '佐', '😀', '𑿁', 'Ю', '字'];
const BOUNDARY: &[char] = &[
    '\u{80}', '\u{7ff}', '\u{800}', '\u{ffff}', '\u{10000}', '\u{10ffff}', '\u{7e}', '\u{d7ff}', '\u{e000}', '\u{fffd}',
    // characters that Unicode-aware helpers treat specially although they are ordinary text here
    '\u{a0}', '\u{3000}', '\u{2003}', '\u{2028}', '\u{feff}', '\u{85}', '\u{9b}',
];
const UNICODE_BLANKS: &[char] = &['\u{a0}', '\u{3000}', '\u{2003}', '\u{2028}', '\u{85}'];
const LETTERS: &[u8] = b"abcdxyz019_.[]~;ADO@";
const C0_IGNORED: &[u8] = &[0x00, 0x01, 0x02, 0x03, 0x04, 0x07, 0x0b, 0x0c, 0x0e, 0x11, 0x13, 0x18, 0x1a, 0x1c, 0x1f];
const OUT_TEXTS: &[&str] = &[
    "", "a", "ok", "x\n", "\n", "a\nb", "a\nb\n", "\n\n", "line one\nline two", "é日\n", "a\r\n", "a\r", "\nb", "\r\nq", "  ", "done.",
    "😀", "two  words", "\n\nz\n",
];

fn cap_from(rng: &mut Rng, w: &[u32; 6]) -> usize {
    match rng.weighted(w) {
        0 => 0,
        1 => 1,
        2 => rng.range(2, 8),
        3 => rng.range(9, 24),
        4 => rng.range(25, 64),
        _ => *rng.pick(&[80usize, 256, 300, 500, 700, 1200]),
    }
}

/// One generated item before flattening
enum Item {
    Unit(Vec<u8>),
    App(Ev),
}

struct Gen<'a> {
    rng: &'a mut Rng,
    p: Profile,
    set: usize,
    pool: Vec<String>,
    cmd_cap: usize,
    items: Vec<Item>,
}

fn enc(c: char) -> Vec<u8> {
    let mut b = [0u8; 4];
    c.encode_utf8(&mut b).as_bytes().to_vec()
}

impl<'a> Gen<'a> {
    fn unit(&mut self, bytes: Vec<u8>) {
        self.items.push(Item::Unit(bytes));
    }

    fn key_left(&mut self) {
        let v = if self.rng.chance(1, 8) {
            b"\x1b[1D".to_vec()
        } else if self.rng.chance(1, 40) {
            let mut v = b"\x1b[".to_vec();
            for _ in 0..self.rng.range(10, 30) {
                v.push(b'0' + self.rng.below(10) as u8);
            }
            v.push(b'D');
            v
        } else {
            b"\x1b[D".to_vec()
        };
        self.unit(v);
    }
    fn key_right(&mut self) {
        let v = if self.rng.chance(1, 8) { b"\x1b[1;5C".to_vec() } else { b"\x1b[C".to_vec() };
        self.unit(v);
    }
    fn key_up(&mut self) {
        let v = if self.rng.chance(1, 8) { b"\x1b[24A".to_vec() } else { b"\x1b[A".to_vec() };
        self.unit(v);
    }
    fn key_down(&mut self) {
        let v = if self.rng.chance(1, 8) { b"\x1b[ B".to_vec() } else { b"\x1b[B".to_vec() };
        self.unit(v);
    }
    fn key_enter(&mut self) {
        let v: &[u8] = match self.rng.below(8) {
            0 | 1 | 2 => b"\r",
            3 | 4 => b"\n",
            5 | 6 => b"\r\n",
            _ => b"\n\r",
        };
        // a pair is two units so that application events can land between its halves
        for b in v {
            self.unit(vec![*b]);
        }
    }

    fn type_str(&mut self, s: &str) {
        for c in s.chars() {
            self.unit(enc(c));
        }
    }

    fn cmd_letter(&mut self) -> Vec<u8> {
        let names = SETS[self.set].names;
        if names.is_empty() || self.rng.chance(1, 6) {
            return vec![*self.rng.pick(b"help")];
        }
        let n = *self.rng.pick(names);
        let cs: Vec<char> = n.chars().collect();
        // first letters are what matters for completion
        let i = if self.rng.chance(2, 3) { self.rng.below(cs.len().min(3)) } else { self.rng.below(cs.len()) };
        enc(cs[i])
    }

    fn random_line(&mut self) -> String {
        let lines = SETS[self.set].lines;
        if !self.pool.is_empty() && self.rng.chance(1, 2) {
            return self.rng.pick(&self.pool).clone();
        }
        let mut s = if !lines.is_empty() && self.rng.chance(3, 4) {
            self.rng.pick(lines).to_string()
        } else {
            let n = self.rng.range(1, 6);
            let mut s = String::new();
            for _ in 0..n {
                match self.rng.below(8) {
                    0 => s.push(' '),
                    1 => s.push(*self.rng.pick(MULTI)),
                    2 => s.push('"'),
                    3 => s.push('-'),
                    _ => s.push(*self.rng.pick(LETTERS) as char),
                }
            }
            s
        };
        // occasional mutation
        if self.rng.chance(1, 5) && !s.is_empty() {
            let cs: Vec<char> = s.chars().collect();
            let i = self.rng.below(cs.len());
            let mut t: Vec<char> = cs.clone();
            match self.rng.below(6) {
                0 => {
                    t.remove(i);
                }
                1 => t.insert(i, *self.rng.pick(MULTI)),
                2 => t.insert(i, '"'),
                3 => t.insert(i, ' '),
                4 => {
                    // upper-case the first word (names are matched exactly, `HELP` is not `help`)
                    let end = t.iter().position(|c| *c == ' ').unwrap_or(t.len());
                    for c in t[..end].iter_mut() {
                        *c = c.to_ascii_uppercase();
                    }
                }
                _ => {
                    // flip the case of one letter
                    t[i] = if t[i].is_ascii_lowercase() { t[i].to_ascii_uppercase() } else { t[i].to_ascii_lowercase() };
                }
            }
            s = t.into_iter().collect();
        }
        if self.pool.len() < 5 {
            self.pool.push(s.clone());
        }
        s
    }

    fn ill_formed_fragment(&mut self) -> Vec<u8> {
        let r = &mut *self.rng;
        let cont = |r: &mut Rng| 0x80 + r.below(0x40) as u8;
        match r.below(14) {
            12 | 13 => {
                // 1..4 high bytes, each from a uniformly drawn class of Unicode table 3-7
                // (closes the class-sequence table; includes valid sequences)
                const CLASSES: [(u8, u8); 14] = [
                    (0x80, 0x8f), (0x90, 0x9f), (0xa0, 0xbf), (0xc0, 0xc1), (0xc2, 0xdf), (0xe0, 0xe0), (0xe1, 0xec),
                    (0xed, 0xed), (0xee, 0xef), (0xf0, 0xf0), (0xf1, 0xf3), (0xf4, 0xf4), (0xf5, 0xf7), (0xf8, 0xff),
                ];
                let n = r.range(1, 4);
                (0..n)
                    .map(|_| {
                        let (lo, hi) = CLASSES[r.below(14)];
                        lo + r.below((hi - lo) as usize + 1) as u8
                    })
                    .collect()
            }
            0 => vec![0xc0 + r.below(2) as u8, cont(r)],                       // overlong 2-byte
            1 => vec![0xe0, 0x80 + r.below(0x20) as u8, cont(r)],              // overlong 3-byte
            2 => vec![0xf0, 0x80 + r.below(0x10) as u8, cont(r), cont(r)],     // overlong 4-byte
            3 => vec![0xed, 0xa0 + r.below(0x20) as u8, cont(r)],              // surrogate
            4 => vec![0xf4, 0x90 + r.below(0x30) as u8, cont(r), cont(r)],     // > U+10FFFF
            5 => vec![0xf5 + r.below(3) as u8, cont(r), cont(r), cont(r)],     // invalid lead F5..F7
            6 => vec![0xf8 + r.below(8) as u8],                                // F8..FF
            7 => (0..r.range(1, 3)).map(|_| cont(r)).collect(),                // stray continuation(s)
            8 => vec![0xc2 + r.below(0x1e) as u8],                             // truncated 2-byte
            9 => {
                let mut v = vec![0xe1 + r.below(0x0c) as u8];
                if r.chance(1, 2) {
                    v.push(cont(r));
                }
                v
            } // truncated 3-byte
            10 => {
                let mut v = vec![0xf1 + r.below(3) as u8];
                for _ in 0..r.below(3) {
                    v.push(cont(r));
                }
                v
            } // truncated 4-byte
            _ => {
                // any bytes >= 0x80 that lossy decoding turns into replacement characters only
                loop {
                    let n = r.range(1, 4);
                    let v: Vec<u8> = (0..n).map(|_| 0x80 + r.below(0x80) as u8).collect();
                    let s = String::from_utf8_lossy(&v);
                    if s.chars().all(|c| c == '\u{fffd}') {
                        break v;
                    }
                }
            }
        }
    }

    fn single(&mut self) {
        let p = self.p.clone();
        let weights = [
            p.w_letter, p.w_cmd_letter, p.w_multi, p.w_boundary, p.w_space, p.w_quote, p.w_backslash, p.w_dash, p.w_bs, p.w_left,
            p.w_right, p.w_up, p.w_down, p.w_tab, p.w_enter, p.w_csi_other, p.w_c0, p.w_lone_esc, p.m_type_line, p.m_recall_edit,
            p.m_walk_insert, p.m_fill, p.m_resubmit, p.m_term_run, p.m_partial_tab, p.m_fragment, p.m_noise, p.m_del,
        ];
        if weights.iter().all(|w| *w == 0) {
            self.unit(vec![b'a']);
            return;
        }
        match self.rng.weighted(&weights) {
            0 => {
                let b = *self.rng.pick(LETTERS);
                self.unit(vec![b])
            }
            1 => {
                let v = self.cmd_letter();
                self.unit(v)
            }
            2 => {
                let c = *self.rng.pick(MULTI);
                self.unit(enc(c))
            }
            3 => {
                let c = if self.rng.chance(1, 2) {
                    *self.rng.pick(BOUNDARY)
                } else {
                    // any scalar value of a random encoded length
                    loop {
                        let v = match self.rng.below(3) {
                            0 => 0x80 + self.rng.below(0x800 - 0x80) as u32,
                            1 => 0x800 + self.rng.below(0x10000 - 0x800) as u32,
                            _ => 0x10000 + self.rng.below(0x110000 - 0x10000) as u32,
                        };
                        if let Some(c) = char::from_u32(v) {
                            break c;
                        }
                    }
                };
                self.unit(enc(c))
            }
            4 => self.unit(vec![b' ']),
            5 => self.unit(vec![b'"']),
            6 => self.unit(vec![b'\\']),
            7 => self.unit(vec![b'-']),
            8 => self.unit(vec![0x08]),
            9 => self.key_left(),
            10 => self.key_right(),
            11 => self.key_up(),
            12 => self.key_down(),
            13 => self.unit(vec![0x09]),
            14 => self.key_enter(),
            15 => {
                // CSI with an ignored final byte, with and without parameter bytes
                let mut v = b"\x1b[".to_vec();
                let n = if self.rng.chance(1, 8) { self.rng.range(4, 40) } else { self.rng.below(4) };
                for _ in 0..n {
                    v.push(0x20 + self.rng.below(0x20) as u8);
                }
                // mostly ignored finals, sometimes an arrow behind a long parameter string
                let finals = b"@EFGHJKPSTZ^`cfhlmnpqrsu~{|}ABCD[\\]_abdegijkotvwxyzIJLMNOQRUVWXY";
                v.push(*self.rng.pick(finals));
                self.unit(v)
            }
            16 => {
                let b = *self.rng.pick(C0_IGNORED);
                self.unit(vec![b])
            }
            17 => {
                // lone ESC followed by a byte that is not '['
                self.unit(vec![0x1b]);
                match self.rng.below(4) {
                    0 => self.unit(vec![b'a']),
                    1 => self.unit(vec![0x1b]),
                    2 => self.unit(vec![b'O']),
                    _ => {}
                }
            }
            18 => {
                let l = self.random_line();
                self.type_str(&l);
                if self.rng.chance(3, 4) {
                    self.key_enter();
                }
            }
            19 => {
                for _ in 0..self.rng.range(1, 4) {
                    self.key_up();
                }
                if self.rng.chance(1, 3) {
                    self.key_down();
                }
                for _ in 0..self.rng.below(4) {
                    self.key_left();
                }
                match self.rng.below(3) {
                    0 => self.unit(vec![0x08]),
                    1 => {
                        let c = *self.rng.pick(MULTI);
                        self.unit(enc(c))
                    }
                    _ => self.unit(vec![b'z']),
                }
                if self.rng.chance(2, 3) {
                    self.key_enter();
                }
            }
            20 => {
                for _ in 0..self.rng.range(1, 6) {
                    self.key_left();
                }
                for _ in 0..self.rng.range(1, 3) {
                    if self.rng.chance(1, 2) {
                        let c = *self.rng.pick(MULTI);
                        self.unit(enc(c));
                    } else {
                        let b = *self.rng.pick(LETTERS);
                        self.unit(vec![b]);
                    }
                }
            }
            21 => {
                // fill the buffer and a bit more (long lines - beyond 255 bytes - only now and then);
                // three styles: mostly ASCII, mostly multi-byte, one-character words
                let limit = if self.rng.chance(1, 4) || self.p.name == "long" { 1300 } else { 70 };
                let n = (self.cmd_cap + 3).min(limit);
                let style = self.rng.below(3);
                let mut i = 0;
                while i < n {
                    match style {
                        0 => {
                            if self.rng.chance(1, 4) {
                                let c = *self.rng.pick(MULTI);
                                i += c.len_utf8();
                                self.unit(enc(c));
                            } else {
                                let b = *self.rng.pick(LETTERS);
                                i += 1;
                                self.unit(vec![b]);
                            }
                        }
                        1 => {
                            let c = *self.rng.pick(MULTI);
                            i += c.len_utf8();
                            self.unit(enc(c));
                        }
                        _ => {
                            let b = *self.rng.pick(b"abcx-");
                            self.unit(vec![b]);
                            self.unit(vec![b' ']);
                            i += 2;
                        }
                    }
                }
            }
            22 => {
                if let Some(l) = (!self.pool.is_empty()).then(|| self.rng.pick(&self.pool).clone()) {
                    self.type_str(&l);
                    self.key_enter();
                } else {
                    let l = self.random_line();
                    self.type_str(&l);
                    self.key_enter();
                }
            }
            23 => {
                // N consecutive terminators in a random CR/LF pattern
                for _ in 0..self.rng.range(1, 6) {
                    let b = if self.rng.chance(1, 2) { b'\r' } else { b'\n' };
                    self.unit(vec![b]);
                }
            }
            24 => {
                // partial command name, blanks, cursor moves, Tab
                let names = SETS[self.set].names;
                let name: String = if names.is_empty() || self.rng.chance(1, 7) {
                    "help".to_string()
                } else {
                    self.rng.pick(names).to_string()
                };
                let cs: Vec<char> = name.chars().collect();
                let k = match self.rng.below(6) {
                    0 => cs.len(),
                    1 => 1,
                    _ => self.rng.range(1, cs.len()),
                };
                if self.rng.chance(1, 6) {
                    for _ in 0..self.rng.range(1, 2) {
                        self.unit(vec![b' ']);
                    }
                } else if self.rng.chance(1, 12) {
                    // a non-ASCII "blank" in front of the word is an ordinary character of the word
                    let c = *self.rng.pick(UNICODE_BLANKS);
                    self.unit(enc(c));
                }
                let pre: String = cs[..k].iter().collect();
                self.type_str(&pre);
                let mut trailing = 0;
                if self.rng.chance(1, 5) {
                    trailing = self.rng.range(1, 3);
                    for _ in 0..trailing {
                        self.unit(vec![b' ']);
                    }
                }
                if self.rng.chance(1, 4) {
                    for _ in 0..self.rng.range(1, trailing + k) {
                        self.key_left();
                    }
                }
                self.unit(vec![0x09]);
                if self.rng.chance(1, 4) {
                    self.unit(vec![0x09]);
                }
                match self.rng.below(4) {
                    0 => self.key_enter(),
                    1 => {
                        self.type_str("1 2");
                        self.key_enter();
                    }
                    2 => {
                        // wipe the line
                        for _ in 0..(k + trailing + 10) {
                            self.unit(vec![0x08]);
                        }
                    }
                    _ => {}
                }
            }
            25 => {
                let f = self.ill_formed_fragment();
                // a fragment is delivered byte by byte like everything else; mark it as one unit
                self.unit(f);
            }
            26 => {
                // raw noise: a few arbitrary bytes
                let n = self.rng.range(1, 5);
                let v: Vec<u8> = (0..n)
                    .map(|_| match self.rng.below(5) {
                        0 => self.rng.below(0x20) as u8,
                        1 => 0x80 + self.rng.below(0x80) as u8,
                        2 => 0x1b,
                        _ => self.rng.below(256) as u8,
                    })
                    .collect();
                self.unit(v);
            }
            _ => self.unit(vec![0x7f]),
        }
    }

    /// Application output text: printable characters, LF and CR LF only (C13's quantifier)
    fn out_text(&mut self) -> String {
        if self.rng.chance(1, 2) {
            return self.rng.pick(OUT_TEXTS).to_string();
        }
        let n = match self.rng.below(12) {
            0 => self.rng.range(200, 400),
            1 | 2 => self.rng.range(13, 40),
            _ => self.rng.range(0, 12),
        };
        let mut s = String::new();
        for _ in 0..n {
            match self.rng.below(14) {
                0 | 1 => s.push('\n'),
                2 => s.push_str("\r\n"),
                3 => s.push(' '),
                4 => s.push(*self.rng.pick(MULTI)),
                5 => s.push(*self.rng.pick(&['$', '#', '>', ':', '-', '"', '\\', '[', 'K', '%', '{', '}'])),
                _ => s.push(*self.rng.pick(LETTERS) as char),
            }
        }
        // a CR LF split across two calls is generated by ending with CR sometimes
        if self.rng.chance(1, 30) {
            s.push('\r');
        }
        s
    }

    fn writer_calls(&mut self, max: usize) -> Vec<WCall> {
        let n = self.rng.below(max + 1);
        let mut v: Vec<WCall> = Vec::new();
        for _ in 0..n {
            let mut text = self.out_text();
            // a text that ends in a lone CR is only inside the quantifier if the next call starts with LF
            if let Some(prev) = v.last() {
                if prev.text.ends_with('\r') && !text.starts_with('\n') {
                    text.insert(0, '\n');
                }
            }
            v.push(WCall {
                kind: *self.rng.pick(&WKind::ALL),
                text,
            });
        }
        // no dangling CR at the very end of the output
        if let Some(last) = v.last_mut() {
            if last.text.ends_with('\r') {
                last.text.push('\n');
            }
            // *Ln kinds append LF themselves: "x\r" + LF is CR LF, fine
        }
        v
    }

    fn app_event(&mut self, inside: bool) -> Option<Ev> {
        let p = &self.p;
        let scale = if inside { p.p_inside } else { 1000 };
        let w = [p.p_write, p.p_prompt, p.p_set, p.p_handler];
        let total: u32 = w.iter().sum();
        if total == 0 {
            return None;
        }
        // chance that any application event happens here
        let any = (total as u64 * scale as u64 / 1000) as usize;
        if !self.rng.chance(any.min(1000), 1000) {
            return None;
        }
        Some(match self.rng.weighted(&w) {
            0 => {
                let calls = self.writer_calls(4);
                Ev::Write(calls, Ret::Ok)
            }
            1 => Ev::Prompt(self.rng.below(PROMPTS.len())),
            2 => {
                let s = self.pick_set();
                self.set = s;
                Ev::Set(s)
            }
            _ => {
                let with_out = self.rng.chance(self.p.p_handler_output as usize, 1000);
                let calls = if with_out { self.writer_calls(5) } else { Vec::new() };
                let prompt = if self.rng.chance(1, 6) { Some(self.rng.below(PROMPTS.len())) } else { None };
                let ret = match self.rng.below(10) {
                    0 => Ret::Ok,
                    _ => Ret::Parse,
                };
                let prompt_first = self.rng.chance(1, 3);
                let pre_prompt = if self.rng.chance(1, 8) { Some(self.rng.below(PROMPTS.len())) } else { None };
                Ev::Handler(HScript { calls, prompt, ret, prompt_first, pre_prompt })
            }
        })
    }

    fn pick_set(&mut self) -> usize {
        if self.p.sets.is_empty() {
            self.rng.below(SETS.len())
        } else {
            *self.rng.pick(self.p.sets)
        }
    }
}

/// Swarm: switch off a random subset of kinds for this run
fn swarm(rng: &mut Rng, p: &mut Profile) {
    macro_rules! maybe_off {
        ($($f:ident),*) => { $( if rng.chance(1, 5) { p.$f = 0; } )* };
    }
    maybe_off!(
        w_letter, w_cmd_letter, w_multi, w_boundary, w_space, w_quote, w_backslash, w_dash, w_bs, w_left, w_right, w_up, w_down,
        w_tab, w_csi_other, w_c0, w_lone_esc, m_type_line, m_recall_edit, m_walk_insert, m_fill, m_resubmit, m_term_run,
        m_partial_tab, p_write, p_prompt, p_set, p_handler
    );
    if rng.chance(1, 4) {
        p.p_inside = 0;
    }
    if rng.chance(1, 6) {
        p.p_inside *= 4;
    }
}

/// History offsets beyond 16 bits: one line of about a thousand bytes is typed once; every
/// further entry costs three keys (recall, one more character, Enter). Then navigation,
/// re-submission of old entries and eviction at that scale.
fn generate_giant(seed: u64) -> Trace {
    let mut rng = Rng::new(seed);
    let line_len = rng.range(900, 1100);
    let cfg = Cfg {
        cmd_cap: 1200,
        hist_cap: *rng.pick(&[66_000usize, 70_000, 100_000, 131_072]),
        prompt: 0,
        set: 0,
        buffered: rng.chance(1, 3),
        short: 0,
        salt: rng.next_u64() >> 16,
        family: "giant".into(),
        use_new: false,
        derived: false,
        build_fault: None,
        builder_order: rng.below(4),
    };
    let mut ev: Vec<Event> = Vec::new();
    fn keys(ev: &mut Vec<Event>, s: &[u8]) {
        for b in s {
            ev.push(Event::rx(*b));
        }
    }
    for i in 0..line_len {
        ev.push(Event::rx(b'a' + (i % 23) as u8));
    }
    keys(&mut ev, b"\r");
    let entries = rng.range(60, 140);
    for i in 0..entries {
        keys(&mut ev, b"\x1b[A");
        if i % 9 == 8 {
            keys(&mut ev, b"\x08\x08"); // shorter variants too
        }
        ev.push(Event::rx(b'a' + rng.below(26) as u8));
        keys(&mut ev, b"\n");
    }
    // walk around in it, re-submit old entries (duplicates far back), walk again
    for _ in 0..rng.range(3, 8) {
        for _ in 0..rng.range(1, 90) {
            keys(&mut ev, b"\x1b[A");
        }
        for _ in 0..rng.below(20) {
            keys(&mut ev, b"\x1b[B");
        }
        match rng.below(3) {
            0 => keys(&mut ev, b"\r"),
            1 => {
                keys(&mut ev, b"\x1b[D");
                ev.push(Event::rx(b'Z'));
                keys(&mut ev, b"\r");
            }
            _ => {}
        }
    }
    Trace { cfg, events: ev }
}

pub fn generate(profile: &Profile, seed: u64) -> Trace {
    if profile.name == "giant" {
        return generate_giant(seed);
    }
    let mut rng = Rng::new(seed);
    let mut p = profile.clone();
    swarm(&mut rng, &mut p);

    let cmd_cap = cap_from(&mut rng, &p.cmd_caps);
    let hist_cap = cap_from(&mut rng, &p.hist_caps);
    let sink = rng.weighted(&p.sinks);
    let set = if p.sets.is_empty() { rng.below(SETS.len()) } else { *rng.pick(p.sets) };
    let cfg = Cfg {
        cmd_cap,
        hist_cap,
        prompt: if rng.chance(1, 2) { 0 } else { rng.below(PROMPTS.len()) },
        set,
        buffered: sink >= 2,
        short: if sink == 1 || sink == 3 { rng.range(1, 3) } else { 0 },
        salt: rng.next_u64() >> 16,
        family: p.name.to_string(),
        use_new: false,
        derived: false,
        build_fault: None,
        builder_order: 0,
    };
    let mut cfg = cfg;
    cfg.builder_order = rng.below(4);
    // a third of the runs use the processor() generated by the derive macro, a few the deprecated constructor
    cfg.derived = rng.chance(1, 3);
    if rng.chance(1, 12) {
        cfg.use_new = true;
        cfg.prompt = 0;
    }
    let n_units = rng.range(p.units.0, p.units.1);
    let fault_run = rng.chance(p.p_fault_run as usize, 1000);
    let mut g = Gen {
        rng: &mut rng,
        p,
        set,
        pool: Vec::new(),
        cmd_cap,
        items: Vec::new(),
    };
    // initial handler script
    if g.rng.chance(1, 2) {
        let calls = g.writer_calls(3);
        g.items.push(Item::App(Ev::Handler(HScript {
            calls,
            prompt: None,
            ret: Ret::Parse,
            prompt_first: false,
            pre_prompt: None,
        })));
    }
    let mut guard = 0;
    while g.items.iter().filter(|i| matches!(i, Item::Unit(_))).count() < n_units && guard < 4 * n_units + 10 {
        guard += 1;
        if let Some(ev) = g.app_event(false) {
            g.items.push(Item::App(ev));
        }
        g.single();
    }

    // A fill macro alone exceeds the unit budget of a run, so in the long-line profile
    // the session would end with the line just filled: add a tail of single keys and
    // application events that act on the long line (moves, deletions, insertions, redraws, Enter)
    if g.p.name == "long" {
        let keep = g.p.clone();
        g.p.m_fill = 0;
        g.p.m_type_line = 0;
        g.p.m_resubmit = 0;
        g.p.m_recall_edit = 0;
        g.p.m_walk_insert = 0;
        g.p.m_partial_tab = 0;
        g.p.m_term_run = 0;
        g.p.w_enter = 1;
        g.p.w_right = g.p.w_right.max(8);
        g.p.w_left = g.p.w_left.max(8);
        for _ in 0..g.rng.range(15, 60) {
            if let Some(ev) = g.app_event(false) {
                g.items.push(Item::App(ev));
            }
            g.single();
        }
        g.p = keep;
    }

    // flatten, letting application events land inside key units
    let items = std::mem::take(&mut g.items);
    let mut events: Vec<Event> = Vec::new();
    for it in items {
        match it {
            Item::App(ev) => events.push(Event::new(ev)),
            Item::Unit(bytes) => {
                for (i, b) in bytes.iter().enumerate() {
                    if i > 0 {
                        if let Some(ev) = g.app_event(true) {
                            events.push(Event::new(ev));
                        }
                    }
                    events.push(Event::rx(*b));
                }
            }
        }
    }

    // random sink faults (the systematic sweep is driven from main)
    if fault_run {
        let n = g.rng.range(1, 3);
        let api: Vec<usize> = events
            .iter()
            .enumerate()
            .filter(|(_, e)| matches!(e.ev, Ev::Rx(_) | Ev::Write(..) | Ev::Prompt(_)))
            .map(|(i, _)| i)
            .collect();
        if !api.is_empty() {
            for _ in 0..n {
                let i = *g.rng.pick(&api);
                let call = match g.rng.below(4) {
                    0 => 0,
                    1 => 1,
                    _ => g.rng.below(12),
                };
                let nn = *g.rng.pick(&[1usize, 1, 1, 2, 3, 0]);
                events[i].faults.push(Fault { call, n: nn });
            }
        }
        // application-made errors
        if g.rng.chance(1, 3) {
            if let Some(i) = events.iter().position(|e| matches!(e.ev, Ev::Handler(_))) {
                if let Ev::Handler(h) = &mut events[i].ev {
                    h.ret = Ret::AppErr;
                }
            }
        }
        if g.rng.chance(1, 4) {
            if let Some(i) = events.iter().position(|e| matches!(e.ev, Ev::Write(..))) {
                if let Ev::Write(_, r) = &mut events[i].ev {
                    *r = Ret::AppErr;
                }
            }
        }
        // resynchronise-and-probe: now and then an application call that repaints the line comes
        // right after a transient fault, so that what the fault left behind (a cached flag, a cursor
        // the terminal never saw move) is judged by the screen oracle on the keys that follow,
        // not only after the next Enter. Drawn last: everything above is unaffected.
        let faulted: Vec<usize> = events
            .iter()
            .enumerate()
            .filter(|(_, e)| matches!(e.ev, Ev::Rx(_)) && e.faults.iter().any(|f| f.n != 0))
            .map(|(i, _)| i)
            .collect();
        for &i in faulted.iter().rev() {
            if g.rng.chance(1, 3) {
                for _ in 0..8 {
                    match g.app_event(true) {
                        Some(ev @ (Ev::Write(..) | Ev::Prompt(_))) => {
                            events.insert(i + 1, Event::new(ev));
                            break;
                        }
                        _ => {}
                    }
                }
            }
        }
    }
    Trace { cfg, events }
}

/// Scenario for the C14 fault sweep: a short session that contains, by
/// construction, one of the interesting calls (chosen by `kind`), surrounded by
/// random typing, and followed by a recovery tail on which all oracles run again.
pub const N_SCENARIO_KINDS: usize = 16;

pub fn scenario(seed: u64, kind: usize) -> Trace {
    let mut rng = Rng::new(seed);
    let base = profile("scen").unwrap();
    let mut t = generate(&base, rng.next_u64());
    // keep buffers roomy enough for the scripted part most of the time
    if rng.chance(3, 4) {
        t.cfg.cmd_cap = rng.range(24, 64);
        t.cfg.hist_cap = rng.range(16, 64);
    }
    let grouped: Vec<usize> = SETS.iter().enumerate().filter(|(_, s)| s.grouped).map(|(i, _)| i).collect();
    let plain: Vec<usize> = SETS
        .iter()
        .enumerate()
        .filter(|(i, s)| !s.grouped && *i > 0 && s.lines.len() > 6)
        .map(|(i, _)| i)
        .collect();
    let set = if rng.chance(1, 2) { *rng.pick(&grouped) } else { *rng.pick(&plain) };
    let mut ev: Vec<Event> = Vec::new();
    fn push_str(ev: &mut Vec<Event>, s: &str) {
        for b in s.as_bytes() {
            ev.push(Event::rx(*b));
        }
    }
    ev.push(Event::new(Ev::Set(set)));
    let lines = SETS[set].lines;
    let helps: Vec<&str> = lines.iter().copied().filter(|l| l.starts_with("help") || l.contains("-h")).collect();
    let others: Vec<&str> = lines.iter().copied().filter(|l| !(l.starts_with("help") || l.contains("-h"))).collect();
    let out = HScript {
        calls: vec![
            WCall { kind: *rng.pick(&WKind::ALL), text: rng.pick(OUT_TEXTS).to_string() },
            WCall { kind: *rng.pick(&WKind::ALL), text: rng.pick(OUT_TEXTS).to_string() },
        ],
        prompt: if rng.chance(1, 4) { Some(rng.below(PROMPTS.len())) } else { None },
        ret: Ret::Parse,
        prompt_first: rng.chance(1, 2),
        pre_prompt: if rng.chance(1, 4) { Some(rng.below(PROMPTS.len())) } else { None },
    };
    match kind % N_SCENARIO_KINDS {
        0 => {
            // Enter with handler output
            ev.push(Event::new(Ev::Handler(out)));
            push_str(&mut ev, *rng.pick(&others[..]));
            push_str(&mut ev, "\r");
        }
        1 => {
            // parse errors of every kind this set offers
            ev.push(Event::new(Ev::Handler(HScript::default())));
            for _ in 0..2 {
                push_str(&mut ev, *rng.pick(&others[..]));
                push_str(&mut ev, "\n");
            }
        }
        2 => {
            // help in all its forms
            for _ in 0..2 {
                push_str(&mut ev, *rng.pick(&helps[..]));
                push_str(&mut ev, "\r\n");
            }
        }
        3 => {
            // mid-line editing
            push_str(&mut ev, "abcdef");
            push_str(&mut ev, "\x1b[D\x1b[D\x1b[D");
            push_str(&mut ev, "X");
            push_str(&mut ev, "\x08");
            push_str(&mut ev, "é");
            push_str(&mut ev, "\x1b[C");
        }
        4 => {
            // recall
            push_str(&mut ev, *rng.pick(&others[..]));
            push_str(&mut ev, "\r");
            push_str(&mut ev, "zz\r");
            push_str(&mut ev, "\x1b[A\x1b[A\x1b[B");
            push_str(&mut ev, "\x1b[D!");
            push_str(&mut ev, "\r");
        }
        5 => {
            // completion
            let names = SETS[set].names;
            let n = rng.pick(names);
            let first: String = n.chars().take(1).collect();
            push_str(&mut ev, &first);
            push_str(&mut ev, "\t\t");
            push_str(&mut ev, " 1\r");
        }
        6 => {
            // Cli::write while editing
            push_str(&mut ev, "abc");
            push_str(&mut ev, "\x1b[D");
            ev.push(Event::new(Ev::Write(
                vec![WCall { kind: *rng.pick(&WKind::ALL), text: rng.pick(OUT_TEXTS).to_string() }],
                Ret::Ok,
            )));
            push_str(&mut ev, "d");
        }
        7 => {
            // set_prompt while editing
            push_str(&mut ev, "ab");
            ev.push(Event::new(Ev::Prompt(rng.below(PROMPTS.len()))));
            push_str(&mut ev, "c\r");
        }
        8 => {
            // quoted / multi-byte arguments through the handler, output, prompt change
            ev.push(Event::new(Ev::Handler(out)));
            let name = SETS[set].names.first().copied().unwrap_or("x");
            push_str(&mut ev, name);
            push_str(&mut ev, " \"é b\" x");
            push_str(&mut ev, "\r");
        }
        10 => {
            // completion in a tight buffer
            t.cfg.cmd_cap = rng.range(3, 9);
            let names = SETS[set].names;
            let n = rng.pick(names);
            let first: String = n.chars().take(rng.range(1, 2)).collect();
            push_str(&mut ev, &first);
            push_str(&mut ev, "\t");
            push_str(&mut ev, "\x1b[D\t");
            push_str(&mut ev, "\r");
        }
        11 => {
            // history eviction and duplicates in a small history
            t.cfg.hist_cap = rng.range(4, 12);
            t.cfg.cmd_cap = rng.range(4, 16);
            for l in ["ab", "cd", "ab", "efg", "cd"] {
                push_str(&mut ev, l);
                push_str(&mut ev, "\n");
            }
            push_str(&mut ev, "\x1b[A\x1b[A\x1b[A\x1b[B\x1b[B\x1b[B");
        }
        12 => {
            // every write path, multi-line, from Cli::write and from the handler
            let calls: Vec<WCall> = WKind::ALL.iter().map(|k| WCall { kind: *k, text: rng.pick(OUT_TEXTS).to_string() }).collect();
            push_str(&mut ev, "ab");
            ev.push(Event::new(Ev::Write(calls.clone(), Ret::Ok)));
            ev.push(Event::new(Ev::Handler(HScript { calls, prompt: None, ret: Ret::Parse, prompt_first: false, pre_prompt: None })));
            push_str(&mut ev, "\r");
        }
        13 => {
            // handler changes the prompt, writes output and returns a parse error
            ev.push(Event::new(Ev::Handler(HScript {
                calls: vec![WCall { kind: *rng.pick(&WKind::ALL), text: "partial".into() }],
                prompt: Some(rng.below(PROMPTS.len())),
                ret: Ret::Parse,
                prompt_first: true,
                pre_prompt: Some(rng.below(PROMPTS.len())),
            })));
            push_str(&mut ev, "nosuch 1\r");
            push_str(&mut ev, *rng.pick(&others[..]));
            push_str(&mut ev, " --zzz\n");
        }
        14 => {
            // malformed input around a submission
            for b in [0xc3u8, 0x28, 0xe2, 0x82, 0xed, 0xa0, 0x80, b'x', 0xf0, 0x9f, 0x98, 0x80, b'\r'] {
                ev.push(Event::rx(b));
            }
            push_str(&mut ev, "\x1b[A\r");
        }
        15 => {
            // empty and multi-byte prompts, blank lines, Enter in all four terminator styles
            ev.push(Event::new(Ev::Prompt(*rng.pick(&[1usize, 4, 5]))));
            push_str(&mut ev, "\r");
            push_str(&mut ev, "  \n");
            push_str(&mut ev, "x\r\n");
            push_str(&mut ev, "y\n\r");
        }
        _ => {
            // application-made error from the handler / from the write closure
            let mut h = out;
            h.ret = Ret::AppErr;
            ev.push(Event::new(Ev::Handler(h)));
            push_str(&mut ev, *rng.pick(&others[..]));
            push_str(&mut ev, "\r");
            ev.push(Event::new(Ev::Write(vec![WCall { kind: WKind::Str, text: "w".into() }], Ret::AppErr)));
            ev.push(Event::new(Ev::Handler(HScript::default())));
        }
    }
    // recovery tail: redraw, then typed text must be dispatched exactly
    let tail_line = *rng.pick(&others);
    let mut tail: Vec<Event> = Vec::new();
    push_str(&mut tail, "\r");
    push_str(&mut tail, tail_line);
    push_str(&mut tail, "\r");
    // surround with a little random typing from the generated trace
    let mut events = Vec::new();
    let keep = rng.below(t.events.len().min(12) + 1);
    events.extend(t.events.drain(..keep));
    events.extend(ev);
    events.extend(tail);
    t.events = events;
    t.cfg.family = format!("scen{}", kind % N_SCENARIO_KINDS);
    t
}
