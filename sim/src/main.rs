//! ecli-sim: deterministic simulation of embedded-cli sessions with fault injection.
//!
//! Sub-commands
//!   run     seeded search over traces of the given generator profiles
//!   sweep   C14 fault enumeration: every sink call position of sampled scenarios
//!   replay  re-execute a trace file, print verdicts
//!   gen     print the trace of (profile, seed, index)
//!   digest  print per-run digests (determinism proof)
//!
//! Exit codes: 0 clean, 1 violation of the requested property, 2 harness error,
//! 3 the library aborted the process (reported as a C03 violation by the driver).

mod app;
#[cfg(not(feature = "family"))]
mod cmdsets_gen;
#[cfg(feature = "family")]
#[path = "../target/cmdsets_family.rs"]
mod cmdsets_gen;
mod exec;
mod gen;
mod prng;
mod shrink;
mod sink;
mod spec;
mod stats;
mod term;
mod trace;

use std::cell::RefCell;
use std::collections::{BTreeMap, HashSet};
use std::fmt::Write as _;
use std::sync::atomic::{AtomicU64, Ordering};
use std::sync::{Arc, Mutex};
use std::time::Instant;

use exec::{ExecOpts, Failure};
use stats::{Stats, P, PROBE_NAMES};
use trace::{Fault, Trace};

thread_local! {
    static PANIC_MSG: RefCell<String> = const { RefCell::new(String::new()) };
    /// Trace being executed by this thread (for the abort report)
    static CURRENT_TRACE: RefCell<Option<Trace>> = const { RefCell::new(None) };
}

/// C16 under reduced feature sets: a failure of any property counts for the requested one
pub static ANY_PROP: std::sync::atomic::AtomicBool = std::sync::atomic::AtomicBool::new(false);

pub fn prop_matches(props: &[&str], prop: &str) -> bool {
    ANY_PROP.load(Ordering::Relaxed) || props.contains(&prop)
}

static ABORT_DIR: Mutex<Option<String>> = Mutex::new(None);
static ABORT_PROP: Mutex<Option<String>> = Mutex::new(None);

/// Panics raised by the harness's own code (its source paths are relative) are
/// harness errors, never verdicts about the library
pub fn is_harness_panic(msg: &str) -> bool {
    msg.contains(" at src/")
}

pub fn take_panic_message() -> String {
    PANIC_MSG.with(|m| std::mem::take(&mut *m.borrow_mut()))
}

extern "C" {
    fn signal(signum: i32, handler: usize) -> usize;
    fn _exit(code: i32) -> !;
    fn alarm(seconds: u32) -> u32;
}

/// Per worker: what it is executing right now, readable from the watchdog thread.
/// [run index + 1 (0 = idle), progress counter, sweep variant event + 1 (0 = base), variant call, variant n]
static WORKER_STATE: [[AtomicU64; 5]; 64] = [const { [const { AtomicU64::new(0) }; 5] }; 64];

thread_local! {
    static WORKER_ID: std::cell::Cell<usize> = const { std::cell::Cell::new(usize::MAX) };
}

fn worker_note(index: u64, variant: Option<(usize, usize, usize)>) {
    let w = WORKER_ID.with(|c| c.get());
    if w < 64 {
        let st = &WORKER_STATE[w];
        st[0].store(index + 1, Ordering::Relaxed);
        match variant {
            Some((e, c, n)) => {
                st[2].store(e as u64 + 1, Ordering::Relaxed);
                st[3].store(c as u64, Ordering::Relaxed);
                st[4].store(n as u64, Ordering::Relaxed);
            }
            None => st[2].store(0, Ordering::Relaxed),
        }
        st[1].fetch_add(1, Ordering::Relaxed);
    }
}

fn worker_idle() {
    let w = WORKER_ID.with(|c| c.get());
    if w < 64 {
        WORKER_STATE[w][0].store(0, Ordering::Relaxed);
        WORKER_STATE[w][1].fetch_add(1, Ordering::Relaxed);
    }
}

/// The library made the process abort (failed unsafe-precondition check = non-unwinding
/// panic, or a real memory fault). Save the trace this thread was executing and
/// report it before dying. abort() raises the signal synchronously on the thread
/// that panicked, so the thread-locals are this run's.
extern "C" fn on_fatal_signal(sig: i32) {
    // if the report below dead-locks (the heap may be corrupted) the process is killed by SIGALRM
    unsafe {
        alarm(3);
    }
    let tick = exec::CURRENT_TICK.with(|c| c.get());
    let msg = PANIC_MSG.with(|m| m.try_borrow().map(|s| s.clone()).unwrap_or_default());
    let dir = ABORT_DIR.try_lock().ok().and_then(|g| g.clone()).unwrap_or_else(|| "../replays".into());
    let prop = ABORT_PROP.try_lock().ok().and_then(|g| g.clone()).unwrap_or_else(|| "C03".into());
    let text = CURRENT_TRACE.with(|t| t.try_borrow().ok().and_then(|t| t.as_ref().map(|t| t.to_text())));
    let mut path = String::from("-");
    if let Some(text) = text {
        if dir != "/dev/null" {
            let d = prng::fnv1a(text.as_bytes());
            let _ = std::fs::create_dir_all(&dir);
            path = format!("{dir}/{prop}-abort-{d:016x}.trace");
            let _ = std::fs::write(
                &path,
                format!(
                    "# VIOLATION property=C03 check=abort: process killed by signal {sig} at event {tick}: {}\n# build: features={} family={}\n{text}",
                    msg.replace('\n', " "),
                    build_tag(),
                    cmdsets_gen::FAMILY_SEED
                ),
            );
        }
    }
    println!("ABORT signal={sig} tick={tick} msg={msg:?} replay={path}");
    use std::io::Write;
    let _ = std::io::stdout().flush();
    unsafe { _exit(3) }
}

fn install_panic_hook() {
    std::panic::set_hook(Box::new(|info| {
        let msg = if let Some(s) = info.payload().downcast_ref::<&str>() {
            s.to_string()
        } else if let Some(s) = info.payload().downcast_ref::<String>() {
            s.clone()
        } else {
            "panic".to_string()
        };
        let loc = info.location().map(|l| format!("{}:{}", l.file(), l.line())).unwrap_or_default();
        PANIC_MSG.with(|m| *m.borrow_mut() = format!("{msg} at {loc}"));
    }));
    #[cfg(not(miri))]
    unsafe {
        for sig in [6, 11, 4, 7] {
            signal(sig, on_fatal_signal as *const () as usize);
        }
    }
}

fn esc(s: &str) -> String {
    let mut o = String::with_capacity(s.len() + 2);
    for c in s.chars() {
        match c {
            '"' => o.push_str("\\\""),
            '\\' => o.push_str("\\\\"),
            '\n' => o.push_str("\\n"),
            '\r' => o.push_str("\\r"),
            '\t' => o.push_str("\\t"),
            c if (c as u32) < 0x20 => {
                let _ = write!(o, "\\u{:04x}", c as u32);
            }
            c => o.push(c),
        }
    }
    o
}

struct Args {
    map: BTreeMap<String, String>,
    pos: Vec<String>,
}

impl Args {
    fn parse(v: &[String]) -> Args {
        let mut map = BTreeMap::new();
        let mut pos = Vec::new();
        let mut i = 0;
        while i < v.len() {
            if let Some(k) = v[i].strip_prefix("--") {
                if i + 1 < v.len() && !v[i + 1].starts_with("--") {
                    map.insert(k.to_string(), v[i + 1].clone());
                    i += 2;
                } else {
                    map.insert(k.to_string(), "1".to_string());
                    i += 1;
                }
            } else {
                pos.push(v[i].clone());
                i += 1;
            }
        }
        Args { map, pos }
    }
    fn get(&self, k: &str) -> Option<&str> {
        self.map.get(k).map(|s| s.as_str())
    }
    fn num(&self, k: &str, d: u64) -> u64 {
        self.get(k).and_then(|v| v.parse().ok()).unwrap_or(d)
    }
}

/// Is this run a non-trivial case for the property (measured, per run)?
fn nontrivial(prop: &str, s: &Stats) -> bool {
    let g = |p: P| s.get(p) > 0;
    match prop {
        "C01" => g(P::dispatch) && (g(P::insert_inside) || g(P::ev_backspace) || g(P::hist_recall_up) || g(P::hist_recall_down) || g(P::enter_after_completion) || g(P::enter_cursor_inside)),
        "C02" => g(P::rx_malformed_byte),
        "C03" => s.get(P::ticks) >= 10,
        "C04" => g(P::csi_with_params) || g(P::pair_crlf) || g(P::pair_lfcr) || g(P::same_terminator_twice) || g(P::lone_esc) || g(P::app_event_mid_char) || g(P::app_event_in_csi) || g(P::app_event_in_pair) || g(P::app_event_after_esc) || g(P::ignored_c0),
        "C05" => g(P::insert_inside) || g(P::insert_rejected_full) || g(P::insert_rejected_partial_room) || g(P::backspace_inside),
        "C06" => g(P::write_line_nonempty) || g(P::prompt_line_nonempty) || g(P::handler_prompt_change) || g(P::insert_inside) || g(P::tab_cursor_inside) || g(P::hist_recall_up),
        "C10" => g(P::hist_recall_up) || g(P::hist_recall_down) || g(P::hist_push_dup_older) || g(P::hist_evict_one) || g(P::hist_evict_many) || g(P::hist_evict_all),
        "C11" => g(P::tab_unique) || g(P::tab_common_prefix),
        "C13" => g(P::handler_output_nonempty) || g(P::write_output_nonempty),
        "C14" => g(P::fault_write_err) || g(P::fault_flush_err) || g(P::fault_app_err),
        "C15" => g(P::call_with_output_buffered_ok),
        "C16" => s.get(P::ticks) >= 10,
        _ => true,
    }
}

#[derive(Clone)]
struct Found {
    index: u64,
    variant: String,
    trace: Trace,
    failures: Vec<Failure>,
    harness_error: Option<String>,
}

/// A recorded, unrepaired defect: violations of `prop` by `check` whose detail
/// contains `key` are reported as KNOWN-FINDING, not as violations.
#[derive(Clone, Debug)]
struct Known {
    prop: String,
    check: String,
    key: String,
}

fn load_known(path: &str) -> Vec<Known> {
    let mut v = Vec::new();
    let Ok(text) = std::fs::read_to_string(path) else { return v };
    for line in text.lines() {
        let line = line.trim();
        let Some(rest) = line.strip_prefix("known:") else { continue };
        let mut prop = String::new();
        let mut check = String::new();
        let mut key = String::new();
        let rest = rest.trim();
        let (head, k) = match rest.find(" key=") {
            Some(i) => (&rest[..i], rest[i + 5..].to_string()),
            None => (rest, String::new()),
        };
        key.push_str(k.trim());
        for t in head.split_whitespace() {
            if let Some(x) = t.strip_prefix("property=") {
                prop = x.to_string();
            } else if let Some(x) = t.strip_prefix("check=") {
                check = x.to_string();
            }
        }
        if !prop.is_empty() && !check.is_empty() {
            v.push(Known { prop, check, key });
        }
    }
    v
}

struct Shared {
    stop_after: AtomicU64,
    found: Mutex<Vec<Found>>,
    known: Vec<Known>,
}

struct ThreadOut {
    stats: Stats,
    digests: HashSet<u64>,
    evaluations: u64,
    other_props: BTreeMap<String, u64>,
    samples: Vec<(u64, String)>,
    known_hits: BTreeMap<String, u64>,
}

fn judge_and_record(
    trace: &Trace,
    prop: &str,
    index: u64,
    variant: &str,
    shared: &Shared,
    out: &mut ThreadOut,
) -> Option<exec::ExecResult> {
    CURRENT_TRACE.with(|t| *t.borrow_mut() = Some(trace.clone()));
    let t2 = trace.clone();
    let opts = ExecOpts::for_prop(prop);
    let r = std::panic::catch_unwind(move || exec::execute(&t2, &opts));
    out.evaluations += 1;
    match r {
        Ok(res) => {
            out.stats.merge(&res.stats);
            if nontrivial(prop, &res.stats) {
                let d = trace.digest();
                out.digests.insert(d);
                if out.samples.len() < 3 {
                    out.samples.push((index, trace.to_text()));
                }
            }
            let mut mine: Vec<Failure> = res.failures.iter().filter(|f| prop_matches(f.props, prop)).cloned().collect();
            mine.retain(|f| {
                match shared.known.iter().find(|k| k.prop == prop && k.check == f.check && f.detail.contains(&k.key)) {
                    Some(k) => {
                        *out.known_hits.entry(format!("{} {}", k.check, k.key)).or_insert(0) += 1;
                        false
                    }
                    None => true,
                }
            });
            for f in res.failures.iter().filter(|f| !prop_matches(f.props, prop)) {
                *out.other_props.entry(format!("{}:{}", f.props[0], f.check)).or_insert(0) += 1;
            }
            if !mine.is_empty() || res.harness_error.is_some() {
                shared.stop_after.fetch_min(index, Ordering::SeqCst);
                shared.found.lock().unwrap().push(Found {
                    index,
                    variant: variant.to_string(),
                    trace: trace.clone(),
                    failures: mine,
                    harness_error: res.harness_error.clone(),
                });
            }
            Some(res)
        }
        Err(_) => {
            let msg = take_panic_message();
            let tick = exec::CURRENT_TICK.with(|c| c.get());
            if is_harness_panic(&msg) {
                shared.stop_after.fetch_min(index, Ordering::SeqCst);
                shared.found.lock().unwrap().push(Found {
                    index,
                    variant: variant.to_string(),
                    trace: trace.clone(),
                    failures: Vec::new(),
                    harness_error: Some(format!("harness panicked: {msg}")),
                });
                return None;
            }
            // a panic is a C03 violation whatever property is being checked; it is
            // reported under the requested property only if that is C03 (or C14 in fault runs)
            let f = Failure {
                props: exec::CURRENT_PROPS.with(|c| c.get()),
                check: "panic",
                tick: if tick == usize::MAX { 0 } else { tick },
                detail: msg,
            };
            if prop_matches(f.props, prop) {
                shared.stop_after.fetch_min(index, Ordering::SeqCst);
                shared.found.lock().unwrap().push(Found {
                    index,
                    variant: variant.to_string(),
                    trace: trace.clone(),
                    failures: vec![f],
                    harness_error: None,
                });
            } else {
                *out.other_props.entry("C03:panic".to_string()).or_insert(0) += 1;
            }
            None
        }
    }
}

/// Feature set this binary was built with, in the driver's notation (h = history, a = autocomplete, p = help)
fn build_tag() -> String {
    let mut t = String::new();
    if exec::HAS_HISTORY {
        t.push('h');
    }
    if exec::HAS_AUTOCOMPLETE {
        t.push('a');
    }
    if exec::HAS_HELP {
        t.push('p');
    }
    if t.is_empty() {
        t.push_str("none");
    }
    t
}

fn profile_id(name: &str) -> u64 {
    prng::fnv1a(name.as_bytes())
}

fn run_seed(seed: u64, profile: &str, index: u64) -> u64 {
    prng::mix(&[seed, profile_id(profile), index])
}

fn cmd_run(a: &Args, sweep: bool) -> i32 {
    let prop = a.get("prop").unwrap_or("C03").to_string();
    if a.get("all-props-as").is_some() {
        ANY_PROP.store(true, Ordering::Relaxed);
    }
    let seed = a.num("seed", 1);
    let runs = a.num("runs", 1000);
    let start = a.num("start", 0);
    let threads = a.num("threads", 16).max(1) as usize;
    let budget = a.num("shrink-budget", 4000) as usize;
    let replay_dir = a.get("replay-dir").unwrap_or("../replays").to_string();
    let progress = a.get("progress").is_some();
    let out_path = a.get("out").map(|s| s.to_string());
    let profiles: Vec<String> = a
        .get("profiles")
        .unwrap_or("mix")
        .split(',')
        .filter(|s| !s.is_empty())
        .map(|s| s.to_string())
        .collect();
    for p in &profiles {
        if gen::profile(p).is_none() {
            eprintln!("unknown profile {p}");
            return 2;
        }
    }
    *ABORT_DIR.lock().unwrap() = Some(replay_dir.clone());
    *ABORT_PROP.lock().unwrap() = Some(prop.clone());

    let known = a.get("known").map(load_known).unwrap_or_default();
    let shared = Arc::new(Shared {
        stop_after: AtomicU64::new(u64::MAX),
        found: Mutex::new(Vec::new()),
        known,
    });
    let t0 = Instant::now();
    #[cfg(not(miri))]
    {
        let profiles = profiles.clone();
        let replay_dir = replay_dir.clone();
        let prop = prop.clone();
        std::thread::spawn(move || watchdog(seed, sweep, profiles, replay_dir, prop));
    }
    let mut handles = Vec::new();
    for t in 0..threads {
        let shared = shared.clone();
        let prop = prop.clone();
        let profiles = profiles.clone();
        handles.push(
            std::thread::Builder::new()
                .stack_size(16 << 20)
                .spawn(move || {
                    let mut out = ThreadOut {
                        stats: Stats::default(),
                        digests: HashSet::new(),
                        evaluations: 0,
                        other_props: BTreeMap::new(),
                        samples: Vec::new(),
                        known_hits: BTreeMap::new(),
                    };
                    let profs: Vec<gen::Profile> = profiles.iter().map(|p| gen::profile(p).unwrap()).collect();
                    WORKER_ID.with(|c| c.set(t));
                    let mut i = start + t as u64;
                    while i < start + runs {
                        if i > shared.stop_after.load(Ordering::SeqCst) {
                            break;
                        }
                        if progress {
                            eprintln!("RUN {i}");
                        }
                        if sweep {
                            sweep_one(seed, i, &prop, &shared, &mut out);
                        } else {
                            let pi = (i % profs.len() as u64) as usize;
                            let tr = gen::generate(&profs[pi], run_seed(seed, profs[pi].name, i));
                            worker_note(i, None);
                            judge_and_record(&tr, &prop, i, "", &shared, &mut out);
                        }
                        i += threads as u64;
                    }
                    worker_idle();
                    out
                })
                .unwrap(),
        );
    }
    let mut total = Stats::default();
    let mut digests: HashSet<u64> = HashSet::new();
    let mut evaluations = 0u64;
    let mut other: BTreeMap<String, u64> = BTreeMap::new();
    let mut samples: Vec<(u64, String)> = Vec::new();
    let mut known_hits: BTreeMap<String, u64> = BTreeMap::new();
    for h in handles {
        let o = h.join().expect("worker thread died");
        total.merge(&o.stats);
        digests.extend(o.digests);
        evaluations += o.evaluations;
        for (k, v) in o.other_props {
            *other.entry(k).or_insert(0) += v;
        }
        samples.extend(o.samples);
        for (k, v) in o.known_hits {
            *known_hits.entry(k).or_insert(0) += v;
        }
    }
    for (k, v) in &known_hits {
        println!("KNOWN-FINDING: property={prop} {k} ({v} occurrence(s) in this run)");
    }
    samples.sort();
    samples.truncate(3);
    let wall = t0.elapsed().as_secs_f64();

    // smallest run index wins, so the result does not depend on the worker count
    let mut found = shared.found.lock().unwrap().clone();
    found.sort_by(|a, b| (a.index, &a.variant).cmp(&(b.index, &b.variant)));
    let first = found.first().cloned();

    let mut exit = 0;
    let mut violation_json = String::from("null");
    if let Some(f) = first {
        if let Some(he) = &f.harness_error {
            eprintln!("HARNESS ERROR at run {} {}: {}", f.index, f.variant, he);
            let path = format!("{replay_dir}/harness-error-{}-{}.trace", seed, f.index);
            let _ = std::fs::create_dir_all(&replay_dir);
            let _ = std::fs::write(&path, f.trace.to_text());
            eprintln!("trace saved to {path}");
            exit = 2;
        } else {
            let fl = &f.failures[0];
            let min = shrink::shrink(&f.trace, &prop, fl.check, budget);
            let v = shrink::judge_for(&min, Some(&prop));
            let (min, v) = if shrink::has_target(&v, &prop, fl.check).is_some() {
                (min, v)
            } else {
                (f.trace.clone(), shrink::judge_for(&f.trace, Some(&prop)))
            };
            let mf = v
                .failures
                .iter()
                .find(|x| x.check == fl.check && prop_matches(x.props, prop.as_str()))
                .cloned()
                .unwrap_or_else(|| fl.clone());
            let _ = std::fs::create_dir_all(&replay_dir);
            let path = format!("{replay_dir}/{prop}-{}-s{seed}-r{}.trace", mf.check, f.index);
            let header = format!(
                "# VIOLATION property={prop} check={} at event {}\n# {}\n# build: features={} family={}\n# found by: seed={seed} run={} {} profiles={} (minimised from {} to {} events)\n",
                mf.check,
                mf.tick,
                mf.detail.replace('\n', " "),
                build_tag(),
                cmdsets_gen::FAMILY_SEED,
                f.index,
                f.variant,
                profiles.join(","),
                f.trace.events.len(),
                min.events.len()
            );
            let _ = std::fs::write(&path, format!("{header}{}", min.to_text()));
            println!("VIOLATION property={prop} replay={path}");
            println!("  check={} event={} detail={}", mf.check, mf.tick, mf.detail);
            violation_json = format!(
                "{{\"check\":\"{}\",\"tick\":{},\"detail\":\"{}\",\"replay\":\"{}\",\"run\":{},\"variant\":\"{}\",\"events_before\":{},\"events_after\":{}}}",
                esc(mf.check),
                mf.tick,
                esc(&mf.detail),
                esc(&path),
                f.index,
                esc(&f.variant),
                f.trace.events.len(),
                min.events.len()
            );
            exit = 1;
        }
    }

    let json = stats_json(&prop, seed, runs, start, threads, &profiles, sweep, evaluations, digests.len(), wall, &total, &other, &samples, &violation_json);
    match out_path {
        Some(p) => {
            if let Err(e) = std::fs::write(&p, json) {
                eprintln!("cannot write {p}: {e}");
                return 2;
            }
        }
        None => println!("{json}"),
    }
    exit
}

/// A session normally takes well under a millisecond. A worker that sits on the same execution
/// for HANG_SECONDS is stuck inside the library (endless loop, or a dead-lock after it corrupted
/// memory): regenerate the trace it is executing, save it and give up with exit code 4.
#[cfg(not(miri))]
const HANG_SECONDS: u64 = 120;

#[cfg(not(miri))]
fn watchdog(seed: u64, sweep: bool, profiles: Vec<String>, replay_dir: String, prop: String) {
    let mut last: Vec<(u64, u64)> = vec![(0, 0); 64];
    loop {
        std::thread::sleep(std::time::Duration::from_secs(1));
        for w in 0..64 {
            let st = &WORKER_STATE[w];
            let idx = st[0].load(Ordering::Relaxed);
            let ctr = st[1].load(Ordering::Relaxed);
            if idx == 0 || ctr != last[w].0 {
                last[w] = (ctr, 0);
                continue;
            }
            last[w].1 += 1;
            if last[w].1 < HANG_SECONDS {
                continue;
            }
            // stuck: if even this report blocks, SIGALRM ends the process
            unsafe {
                alarm(10);
            }
            let index = idx - 1;
            let mut tr = if sweep {
                gen::scenario(prng::mix(&[seed, 0x5ce0, index]), (index % gen::N_SCENARIO_KINDS as u64) as usize)
            } else {
                let pi = (index % profiles.len() as u64) as usize;
                let p = gen::profile(&profiles[pi]).expect("profile");
                gen::generate(&p, run_seed(seed, p.name, index))
            };
            let ve = st[2].load(Ordering::Relaxed);
            if ve != 0 {
                let e = (ve - 1) as usize;
                let call = st[3].load(Ordering::Relaxed) as usize;
                let n = st[4].load(Ordering::Relaxed) as usize;
                if e == usize::MAX - 1 {
                    tr.cfg.build_fault = Some(call);
                } else if e < tr.events.len() {
                    tr.events[e].faults.push(Fault { call, n });
                }
            }
            let text = tr.to_text();
            let _ = std::fs::create_dir_all(&replay_dir);
            let path = format!("{replay_dir}/{prop}-hang-{:016x}.trace", prng::fnv1a(text.as_bytes()));
            let _ = std::fs::write(
                &path,
                format!(
                    "# VIOLATION property=C03 check=hang: a worker was stuck in this session for {HANG_SECONDS} s (endless loop in the library, or dead-lock after memory was corrupted)\n# build: features={} family={}\n{text}",
                    build_tag(),
                    cmdsets_gen::FAMILY_SEED
                ),
            );
            println!("HANG run={index} replay={path}");
            use std::io::Write;
            let _ = std::io::stdout().flush();
            unsafe { _exit(4) }
        }
    }
}

/// C14 fault enumeration for one scenario: fail every sink call position in turn
fn sweep_one(seed: u64, index: u64, prop: &str, shared: &Shared, out: &mut ThreadOut) {
    let kind = (index % gen::N_SCENARIO_KINDS as u64) as usize;
    let tr = gen::scenario(prng::mix(&[seed, 0x5ce0, index]), kind);
    worker_note(index, None);
    let base = match judge_and_record(&tr, prop, index, "base", shared, out) {
        Some(r) => r,
        None => return,
    };
    if !base.failures.is_empty() || base.harness_error.is_some() {
        // the fault-free scenario itself fails: reported above if it concerns this property
        if base.failures.iter().any(|f| prop_matches(f.props, prop)) || base.harness_error.is_some() {
            return;
        }
    }
    // faults while the Cli is being constructed (the initial prompt: a write and a flush, more with short writes)
    for call in 0..4 {
        let mut v = tr.clone();
        v.cfg.build_fault = Some(call);
        worker_note(index, Some((usize::MAX - 1, call, 1)));
        judge_and_record(&v, prop, index, &format!("buildfault@{call}"), shared, out);
    }
    for (e, &n_calls) in base.calls_per_event.iter().enumerate() {
        for call in 0..n_calls {
            for &n in &[1usize, 0] {
                if index > shared.stop_after.load(Ordering::SeqCst) {
                    return;
                }
                let mut v = tr.clone();
                v.events[e].faults.push(Fault { call, n });
                let variant = format!("fault@{e}.{call}x{n}");
                worker_note(index, Some((e, call, n)));
                judge_and_record(&v, prop, index, &variant, shared, out);
            }
        }
    }
}

#[allow(clippy::too_many_arguments)]
fn stats_json(
    prop: &str,
    seed: u64,
    runs: u64,
    start: u64,
    threads: usize,
    profiles: &[String],
    sweep: bool,
    evaluations: u64,
    distinct: usize,
    wall: f64,
    s: &Stats,
    other: &BTreeMap<String, u64>,
    samples: &[(u64, String)],
    violation: &str,
) -> String {
    let mut j = String::new();
    let _ = write!(j, "{{\"property\":\"{prop}\",\"seed\":{seed},\"runs\":{runs},\"start\":{start},\"threads\":{threads},\"sweep\":{sweep},");
    let _ = write!(j, "\"profiles\":[{}],", profiles.iter().map(|p| format!("\"{p}\"")).collect::<Vec<_>>().join(","));
    let _ = write!(
        j,
        "\"features\":{{\"history\":{},\"autocomplete\":{},\"help\":{}}},",
        exec::HAS_HISTORY,
        exec::HAS_AUTOCOMPLETE,
        exec::HAS_HELP
    );
    let _ = write!(j, "\"cmdset_family\":{},\"command_sets\":{},", cmdsets_gen::FAMILY_SEED, cmdsets_gen::SETS.len());
    let _ = write!(j, "\"evaluations\":{evaluations},\"distinct_nontrivial\":{distinct},\"wall_s\":{wall:.3},");
    let _ = write!(j, "\"runs_fault_free\":{},\"runs_faulty\":{},", s.runs_fault_free, s.runs_faulty);
    let _ = write!(j, "\"distinct_states\":{},\"decoder_pairs\":{},\"bad_class_seqs\":{},", s.states.len(), s.decoder_pairs.len(), s.bad_class_seqs.len());
    let _ = write!(j, "\"small_editor_states\":{},\"small_history_states\":{},", s.small_editor_states.len(), s.small_history_states.len());
    let mut by_len = [0usize; 5];
    for v in &s.bad_class_seqs {
        // length is the leading digit group: v = ((len*16 + c1)*16 + c2)...
        let mut x = *v;
        let mut n = 0;
        while x >= 16 {
            x /= 16;
            n += 1;
        }
        if n <= 4 {
            by_len[n] += 1;
        }
    }
    let _ = write!(j, "\"bad_class_seqs_by_len\":[{},{},{},{}],", by_len[1], by_len[2], by_len[3], by_len[4]);
    let cells_hit = s.cells.iter().filter(|c| **c > 0).count();
    let _ = write!(j, "\"interleaving_cells_hit\":{cells_hit},\"interleaving_cells\":96,");
    j.push_str("\"probes\":{");
    for (i, name) in PROBE_NAMES.iter().enumerate() {
        if i > 0 {
            j.push(',');
        }
        let _ = write!(j, "\"{name}\":{}", s.probes[i]);
    }
    j.push_str("},\"other_property_failures\":{");
    for (i, (k, v)) in other.iter().enumerate() {
        if i > 0 {
            j.push(',');
        }
        let _ = write!(j, "\"{}\":{}", esc(k), v);
    }
    j.push_str("},\"samples\":[");
    for (i, (idx, t)) in samples.iter().enumerate() {
        if i > 0 {
            j.push(',');
        }
        let short: String = t.lines().take(40).collect::<Vec<_>>().join("\n");
        let _ = write!(j, "{{\"run\":{idx},\"trace\":\"{}\"}}", esc(&short));
    }
    let _ = write!(j, "],\"violation\":{violation}}}");
    j
}

fn cmd_replay(a: &Args) -> i32 {
    let Some(path) = a.pos.first() else {
        eprintln!("usage: ecli-sim replay <trace> [--prop Cxx] [--verbose]");
        return 2;
    };
    let text = match std::fs::read_to_string(path) {
        Ok(t) => t,
        Err(e) => {
            eprintln!("cannot read {path}: {e}");
            return 2;
        }
    };
    let tr = match Trace::from_text(&text) {
        Ok(t) => t,
        Err(e) => {
            eprintln!("cannot parse {path}: {e}");
            return 2;
        }
    };
    let prop = a.get("prop").map(|s| s.to_string());
    if a.get("all-props-as").is_some() || prop.as_deref() == Some("C16") {
        ANY_PROP.store(true, Ordering::Relaxed);
    }
    *ABORT_DIR.lock().unwrap() = Some("/dev/null".into());
    CURRENT_TRACE.with(|t| *t.borrow_mut() = None);
    let verbose = a.get("verbose").is_some();
    let opts = ExecOpts {
        verbose,
        stop_at_first: !verbose,
        prop: prop.clone(),
    };
    let t2 = tr.clone();
    let r = std::panic::catch_unwind(move || exec::execute(&t2, &opts));
    match r {
        Err(_) => {
            let msg = take_panic_message();
            let tick = exec::CURRENT_TICK.with(|c| c.get());
            if is_harness_panic(&msg) {
                eprintln!("HARNESS ERROR: harness panicked: {msg}");
                return 2;
            }
            let props = exec::CURRENT_PROPS.with(|c| c.get());
            println!("FAIL props={props:?} check=panic event={tick} detail={msg}");
            match &prop {
                Some(p) if !prop_matches(props, p.as_str()) => 0,
                _ => 1,
            }
        }
        Ok(res) => {
            for l in &res.log {
                println!("{l}");
            }
            if let Some(h) = &res.harness_error {
                eprintln!("HARNESS ERROR: {h}");
                return 2;
            }
            let mut rc = 0;
            for f in &res.failures {
                println!("FAIL props={:?} check={} event={} detail={}", f.props, f.check, f.tick, f.detail);
                match &prop {
                    Some(p) if !prop_matches(f.props, p.as_str()) => {}
                    _ => rc = 1,
                }
            }
            if res.failures.is_empty() {
                println!("OK: {} events, no oracle failed", res.ticks);
            }
            if a.get("observable").is_some() {
                println!("OBS {:016x} {}", res.obs_digest, res.used_mask);
            }
            rc
        }
    }
}

fn cmd_gen(a: &Args) -> i32 {
    let profile = a.get("profile").unwrap_or("mix");
    let seed = a.num("seed", 1);
    let index = a.num("index", 0);
    if let Some(k) = a.get("scenario") {
        let kind: usize = k.parse().unwrap_or(0);
        print!("{}", gen::scenario(prng::mix(&[seed, 0x5ce0, index]), kind).to_text());
        return 0;
    }
    match gen::profile(profile) {
        Some(p) => {
            print!("{}", gen::generate(&p, run_seed(seed, p.name, index)).to_text());
            0
        }
        None => {
            eprintln!("unknown profile");
            2
        }
    }
}

/// One line per run: index, trace digest, outcome digest. Used by the determinism proof.
fn cmd_digest(a: &Args) -> i32 {
    let seed = a.num("seed", 1);
    let runs = a.num("runs", 100);
    let threads = a.num("threads", 1).max(1) as usize;
    let profiles: Vec<String> = a.get("profiles").unwrap_or("mix").split(',').map(|s| s.to_string()).collect();
    let observable = a.get("observable").is_some();
    let results: Arc<Mutex<Vec<(u64, u64, u64, u64, u8)>>> = Arc::new(Mutex::new(Vec::new()));
    let mut hs = Vec::new();
    for t in 0..threads {
        let results = results.clone();
        let profiles = profiles.clone();
        hs.push(std::thread::spawn(move || {
            let profs: Vec<gen::Profile> = profiles.iter().map(|p| gen::profile(p).expect("profile")).collect();
            let mut local = Vec::new();
            let mut i = t as u64;
            while i < runs {
                let tr = if profs[0].name == "scen" {
                    gen::scenario(prng::mix(&[seed, 0x5ce0, i]), (i % gen::N_SCENARIO_KINDS as u64) as usize)
                } else {
                    let pi = (i % profs.len() as u64) as usize;
                    gen::generate(&profs[pi], run_seed(seed, profs[pi].name, i))
                };
                let t2 = tr.clone();
                let r = std::panic::catch_unwind(move || exec::execute(&t2, &ExecOpts::default()));
                let (od, obs, used) = match r {
                    Ok(res) => {
                        let mut s = String::new();
                        for f in &res.failures {
                            let _ = write!(s, "{}@{}:{};", f.check, f.tick, f.detail);
                        }
                        let _ = write!(s, "{:?}|{:?}|{:?}", res.stats.probes, res.calls_per_event, res.harness_error);
                        (prng::fnv1a(s.as_bytes()), res.obs_digest, res.used_mask)
                    }
                    Err(_) => (prng::fnv1a(take_panic_message().as_bytes()), 0, 7),
                };
                local.push((i, tr.digest(), od, obs, used));
                i += threads as u64;
            }
            results.lock().unwrap().extend(local);
        }));
    }
    for h in hs {
        h.join().unwrap();
    }
    let mut r = results.lock().unwrap().clone();
    r.sort();
    for (i, a, b, c, d) in r {
        if observable {
            println!("{i} {a:016x} {b:016x} {c:016x} {d}");
        } else {
            println!("{i} {a:016x} {b:016x}");
        }
    }
    0
}

fn main() {
    install_panic_hook();
    let argv: Vec<String> = std::env::args().collect();
    if argv.len() < 2 {
        eprintln!("usage: ecli-sim run|sweep|replay|gen|digest ...");
        std::process::exit(2);
    }
    let a = Args::parse(&argv[2..]);
    let rc = match argv[1].as_str() {
        "run" => cmd_run(&a, false),
        "sweep" => cmd_run(&a, true),
        "replay" => cmd_replay(&a),
        "gen" => cmd_gen(&a),
        "digest" => cmd_digest(&a),
        "profiles" => {
            println!("{}", gen::PROFILES.join(" "));
            0
        }
        other => {
            eprintln!("unknown sub-command {other}");
            2
        }
    };
    std::process::exit(rc);
}
