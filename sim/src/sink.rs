//! TX sink model: an `embedded_io::Write` that can fail, accept only part of
//! what it is offered, and hold bytes back until flushed. The library owns the
//! handle; harness and application share the state behind it.

use std::cell::RefCell;
use std::rc::Rc;

use crate::trace::Fault;

/// Error value of the simulated sink. `id` tells *which* error it was:
/// sink errors count up from 1, application-made errors have bit 31 set.
#[derive(Clone, Copy, Debug, PartialEq, Eq)]
pub struct SimErr {
    pub id: u32,
}

pub const APP_ERR_BASE: u32 = 0x8000_0000;

impl embedded_io::Error for SimErr {
    /// Different faults report different kinds (a library must not treat any of them as "retry")
    fn kind(&self) -> embedded_io::ErrorKind {
        use embedded_io::ErrorKind::*;
        match self.id % 6 {
            0 => Other,
            1 => Interrupted,
            2 => TimedOut,
            3 => BrokenPipe,
            4 => WriteZero,
            _ => OutOfMemory,
        }
    }
}

#[derive(Clone, Copy, Debug, PartialEq, Eq)]
pub enum CallKind {
    Write,
    Flush,
}

#[derive(Clone, Debug)]
pub struct SinkCall {
    pub kind: CallKind,
    pub offered: usize,
    pub accepted: usize,
    pub err: Option<u32>,
}

#[derive(Debug, Default)]
pub struct SinkState {
    pub buffered: bool,
    pub short: usize,
    pub salt: u64,

    /// Accepted but not yet flushed (only non-empty in buffered mode)
    pub pending: Vec<u8>,
    /// Number of bytes accepted since the last successful flush (all modes)
    pub unflushed: usize,
    /// Delivered to the terminal during the current event
    pub delivered: Vec<u8>,
    /// Accepted during the current event, in order (flushed or not)
    pub written: Vec<u8>,
    /// Sink calls of the current event
    pub calls: Vec<SinkCall>,
    /// Ids of the errors produced during the current event
    pub errs: Vec<u32>,

    faults: Vec<Fault>,
    fail_left: usize,
    fail_until_end: bool,
    next_err: u32,
    next_app_err: u32,
    short_ctr: u64,

    /// Totals over the run (reach counters)
    pub total_write_calls: u64,
    pub total_flush_calls: u64,
    pub total_short_writes: u64,
    pub total_write_errs: u64,
    pub total_flush_errs: u64,
    pub total_bytes: u64,
}

impl SinkState {
    pub fn begin_event(&mut self, faults: &[Fault]) {
        self.delivered.clear();
        self.written.clear();
        self.calls.clear();
        self.errs.clear();
        self.faults.clear();
        self.faults.extend_from_slice(faults);
        self.fail_left = 0;
        self.fail_until_end = false;
    }

    /// Application-made error (F8); recorded like a sink error so that the
    /// oracle knows it was produced during this call
    pub fn make_app_err(&mut self) -> SimErr {
        self.next_app_err += 1;
        let id = APP_ERR_BASE | self.next_app_err;
        self.errs.push(id);
        SimErr { id }
    }

    /// Last error produced in this event (for the `core::fmt` path that loses it)
    pub fn last_err(&self) -> Option<SimErr> {
        self.errs.last().map(|&id| SimErr { id })
    }

    fn should_fail(&mut self) -> bool {
        let idx = self.calls.len();
        if let Some(f) = self.faults.iter().find(|f| f.call == idx) {
            if f.n == 0 {
                self.fail_until_end = true;
            } else {
                self.fail_left = self.fail_left.max(f.n);
            }
        }
        if self.fail_until_end {
            return true;
        }
        if self.fail_left > 0 {
            self.fail_left -= 1;
            return true;
        }
        false
    }

    fn new_err(&mut self) -> SimErr {
        self.next_err += 1;
        self.errs.push(self.next_err);
        SimErr { id: self.next_err }
    }

    fn do_write(&mut self, buf: &[u8]) -> Result<usize, SimErr> {
        self.total_write_calls += 1;
        if self.should_fail() {
            let e = self.new_err();
            self.total_write_errs += 1;
            self.calls.push(SinkCall {
                kind: CallKind::Write,
                offered: buf.len(),
                accepted: 0,
                err: Some(e.id),
            });
            return Err(e);
        }
        let n = if self.short > 0 && buf.len() > 1 {
            self.short_ctr += 1;
            let mut st = self.salt ^ self.short_ctr.wrapping_mul(0x9E37_79B9_7F4A_7C15);
            let r = crate::prng::splitmix64(&mut st);
            let k = 1 + (r % self.short as u64) as usize;
            k.min(buf.len())
        } else {
            buf.len()
        };
        if n < buf.len() {
            self.total_short_writes += 1;
        }
        let part = &buf[..n];
        self.written.extend_from_slice(part);
        self.unflushed += n;
        self.total_bytes += n as u64;
        if self.buffered {
            self.pending.extend_from_slice(part);
        } else {
            self.delivered.extend_from_slice(part);
        }
        self.calls.push(SinkCall {
            kind: CallKind::Write,
            offered: buf.len(),
            accepted: n,
            err: None,
        });
        Ok(n)
    }

    fn do_flush(&mut self) -> Result<(), SimErr> {
        self.total_flush_calls += 1;
        if self.should_fail() {
            let e = self.new_err();
            self.total_flush_errs += 1;
            self.calls.push(SinkCall {
                kind: CallKind::Flush,
                offered: 0,
                accepted: 0,
                err: Some(e.id),
            });
            return Err(e);
        }
        let p = std::mem::take(&mut self.pending);
        self.delivered.extend_from_slice(&p);
        self.unflushed = 0;
        self.calls.push(SinkCall {
            kind: CallKind::Flush,
            offered: 0,
            accepted: 0,
            err: None,
        });
        Ok(())
    }
}

#[derive(Clone, Debug)]
pub struct Sink(pub Rc<RefCell<SinkState>>);

impl Sink {
    pub fn new(buffered: bool, short: usize, salt: u64) -> Self {
        Sink(Rc::new(RefCell::new(SinkState {
            buffered,
            short,
            salt,
            ..Default::default()
        })))
    }
}

impl embedded_io::ErrorType for Sink {
    type Error = SimErr;
}

impl embedded_io::Write for Sink {
    fn write(&mut self, buf: &[u8]) -> Result<usize, SimErr> {
        if buf.is_empty() {
            // embedded-io: implementations may return Ok(0) only for an empty buffer.
            // Recorded as a call so fault positions stay well defined.
            return self.0.borrow_mut().do_write(buf);
        }
        self.0.borrow_mut().do_write(buf)
    }

    fn flush(&mut self) -> Result<(), SimErr> {
        self.0.borrow_mut().do_flush()
    }
}
