//! The trace: configuration + event list. Generation is a pure function of the
//! seed and produces one of these; execution is a pure function of it. The text
//! form below is the replay file.

use std::fmt::Write as _;

/// Prompts the application may set. `&'static str` because the API wants that.
pub const PROMPTS: [&str; 6] = ["$ ", "", "#", "###> ", "λ> ", "日本 "];

#[derive(Clone, Copy, Debug, PartialEq, Eq, Hash)]
pub enum WKind {
    /// `Writer::write_str`
    Str,
    /// `Writer::writeln_str`
    Ln,
    /// `ufmt::uwrite!(w, "{}", text)`
    Ufmt,
    /// `ufmt::uwriteln!(w, "{}", text)`
    UfmtLn,
    /// `core::write!(w, "{}", text)`
    Fmt,
    /// `core::writeln!(w, "{}", text)`
    FmtLn,
    /// `ufmt::uwrite!(w, "{}", c)` for every `char` of the text (the `uWrite::write_char` path)
    UfmtChars,
    /// `core::write!(w, "{}", c)` for every `char` of the text (the `fmt::Write::write_char` path)
    FmtChars,
    /// `Writer::write_list_element(first word, rest, 12)` - text "name rest of text"
    ListElem,
    /// `Writer::write_title(text)`
    Title,
    /// `ufmt::uwrite!(w, "[{}]{}{}", text, 7u8, "")`: several arguments, an integer, an empty last piece
    UfmtArgs,
    /// `core::write!(w, "[{}]{}{}", text, 7u8, "")`
    FmtArgs,
}

impl WKind {
    pub const ALL: [WKind; 12] = [
        WKind::Str,
        WKind::Ln,
        WKind::Ufmt,
        WKind::UfmtLn,
        WKind::Fmt,
        WKind::FmtLn,
        WKind::UfmtChars,
        WKind::FmtChars,
        WKind::ListElem,
        WKind::Title,
        WKind::UfmtArgs,
        WKind::FmtArgs,
    ];
    fn tag(self) -> &'static str {
        match self {
            WKind::Str => "S",
            WKind::Ln => "L",
            WKind::Ufmt => "U",
            WKind::UfmtLn => "UL",
            WKind::Fmt => "F",
            WKind::FmtLn => "FL",
            WKind::UfmtChars => "UC",
            WKind::FmtChars => "FC",
            WKind::ListElem => "LE",
            WKind::Title => "T",
            WKind::UfmtArgs => "UA",
            WKind::FmtArgs => "FA",
        }
    }
    fn from_tag(t: &str) -> Option<Self> {
        Some(match t {
            "S" => WKind::Str,
            "L" => WKind::Ln,
            "U" => WKind::Ufmt,
            "UL" => WKind::UfmtLn,
            "F" => WKind::Fmt,
            "FL" => WKind::FmtLn,
            "UC" => WKind::UfmtChars,
            "FC" => WKind::FmtChars,
            "LE" => WKind::ListElem,
            "T" => WKind::Title,
            "UA" => WKind::UfmtArgs,
            "FA" => WKind::FmtArgs,
            _ => return None,
        })
    }
    /// Does this call append a line feed to its text?
    pub fn appends_lf(self) -> bool {
        matches!(self, WKind::Ln | WKind::UfmtLn | WKind::FmtLn)
    }
}

pub const LIST_ELEM_WIDTH: usize = 12;

impl WCall {
    /// For `ListElem`: (name, description) = text split at its first space
    pub fn list_parts(&self) -> (&str, &str) {
        match self.text.split_once(' ') {
            Some((a, b)) => (a, b),
            None => (self.text.as_str(), ""),
        }
    }

    /// The text this call asks the library to put on the wire (before LF -> CR LF conversion)
    pub fn spec_text(&self) -> String {
        match self.kind {
            WKind::ListElem => {
                let (name, desc) = self.list_parts();
                let mut s = String::from("  ");
                s.push_str(name);
                for _ in name.len()..LIST_ELEM_WIDTH {
                    s.push(' ');
                }
                s.push_str("  ");
                s.push_str(desc);
                s.push('\n');
                s
            }
            WKind::UfmtArgs | WKind::FmtArgs => format!("[{}]7", self.text),
            k if k.appends_lf() => format!("{}\n", self.text),
            _ => self.text.clone(),
        }
    }
}

#[derive(Clone, Debug, PartialEq, Eq, Hash)]
pub struct WCall {
    pub kind: WKind,
    pub text: String,
}

#[derive(Clone, Copy, Debug, PartialEq, Eq, Hash)]
pub enum Ret {
    Ok,
    /// Return the error of the derived parser if it produced one (otherwise Ok)
    Parse,
    /// Return an application-made error
    AppErr,
}

#[derive(Clone, Debug, PartialEq, Eq, Hash)]
pub struct HScript {
    pub calls: Vec<WCall>,
    pub prompt: Option<usize>,
    pub ret: Ret,
    /// `CliHandle::set_prompt` is called before the writer calls instead of after them
    pub prompt_first: bool,
    /// an additional `CliHandle::set_prompt(PROMPTS[i])` made first of all (so that a handler
    /// can set the prompt twice, e.g. "busy" while working and back afterwards)
    pub pre_prompt: Option<usize>,
}

impl Default for HScript {
    fn default() -> Self {
        HScript {
            calls: Vec::new(),
            prompt: None,
            ret: Ret::Parse,
            prompt_first: false,
            pre_prompt: None,
        }
    }
}

#[derive(Clone, Debug, PartialEq, Eq, Hash)]
pub enum Ev {
    /// One byte to `process_byte`
    Rx(u8),
    /// `Cli::write` with these writer calls; `ret` Ok or AppErr (closure fails after its calls)
    Write(Vec<WCall>, Ret),
    /// `Cli::set_prompt(PROMPTS[i])`
    Prompt(usize),
    /// From now on `process_byte::<Set_i, _>`
    Set(usize),
    /// Script every later handler invocation runs (until replaced)
    Handler(HScript),
}

/// Sink fault: the `call`-th sink call (0-based, `write` and `flush` both count)
/// made during the event fails, and so do the following `n - 1` calls
/// (`n == 0`: every call until the end of the event).
#[derive(Clone, Copy, Debug, PartialEq, Eq, Hash)]
pub struct Fault {
    pub call: usize,
    pub n: usize,
}

#[derive(Clone, Debug, PartialEq, Eq, Hash)]
pub struct Event {
    pub ev: Ev,
    pub faults: Vec<Fault>,
}

impl Event {
    pub fn new(ev: Ev) -> Self {
        Event {
            ev,
            faults: Vec::new(),
        }
    }
    pub fn rx(b: u8) -> Self {
        Event::new(Ev::Rx(b))
    }
}

#[derive(Clone, Debug, PartialEq, Eq, Hash)]
pub struct Cfg {
    pub cmd_cap: usize,
    pub hist_cap: usize,
    pub prompt: usize,
    pub set: usize,
    /// Sink delivers to the terminal only on flush
    pub buffered: bool,
    /// 0: whole writes; k > 0: each `write` accepts 1..=k bytes
    pub short: usize,
    /// Salt of the short-write length pattern
    pub salt: u64,
    /// Name of the generator family (informational, kept in replay files)
    pub family: String,
    /// Build the Cli with the deprecated `Cli::new` instead of `CliBuilder` (prompt is then the default one)
    pub use_new: bool,
    /// Handlers go through the `processor()` function generated by the derive macro /
    /// `RawCommand::processor` (the path applications use) instead of a hand-written `CommandProcessor`
    pub derived: bool,
    /// Fail this sink call (0-based) while the Cli is being constructed
    pub build_fault: Option<usize>,
    /// Order of the CliBuilder calls: 0 = writer, buffers, prompt; 1 = prompt, writer, buffers;
    /// 2 = buffers, prompt, writer; 3 = prompt, buffers, writer
    pub builder_order: usize,
}

impl Default for Cfg {
    fn default() -> Self {
        Cfg {
            cmd_cap: 32,
            hist_cap: 32,
            prompt: 0,
            set: 0,
            buffered: false,
            short: 0,
            salt: 0,
            family: "manual".into(),
            use_new: false,
            derived: false,
            build_fault: None,
            builder_order: 0,
        }
    }
}

#[derive(Clone, Debug, PartialEq, Eq, Hash)]
pub struct Trace {
    pub cfg: Cfg,
    pub events: Vec<Event>,
}

fn hex(s: &[u8], out: &mut String) {
    for b in s {
        let _ = write!(out, "{:02x}", b);
    }
}

fn unhex(s: &str) -> Result<Vec<u8>, String> {
    if s.len() % 2 != 0 {
        return Err(format!("odd hex length: {s}"));
    }
    (0..s.len())
        .step_by(2)
        .map(|i| u8::from_str_radix(&s[i..i + 2], 16).map_err(|e| format!("bad hex {s}: {e}")))
        .collect()
}

fn calls_to_text(calls: &[WCall], out: &mut String) {
    for c in calls {
        out.push(' ');
        out.push_str(c.kind.tag());
        out.push(':');
        hex(c.text.as_bytes(), out);
    }
}

fn ret_tag(r: Ret) -> &'static str {
    match r {
        Ret::Ok => "ok",
        Ret::Parse => "parse",
        Ret::AppErr => "apperr",
    }
}

fn parse_ret(s: &str) -> Result<Ret, String> {
    Ok(match s {
        "ok" => Ret::Ok,
        "parse" => Ret::Parse,
        "apperr" => Ret::AppErr,
        _ => return Err(format!("bad ret {s}")),
    })
}

fn parse_call(tok: &str) -> Result<WCall, String> {
    let (tag, h) = tok
        .split_once(':')
        .ok_or_else(|| format!("bad writer call {tok}"))?;
    let kind = WKind::from_tag(tag).ok_or_else(|| format!("bad writer call kind {tag}"))?;
    let text = String::from_utf8(unhex(h)?).map_err(|e| format!("writer text not utf-8: {e}"))?;
    Ok(WCall { kind, text })
}

fn kv<'a>(tok: &'a str, key: &str) -> Option<&'a str> {
    tok.strip_prefix(key).and_then(|r| r.strip_prefix('='))
}

impl Trace {
    pub fn to_text(&self) -> String {
        let mut s = String::new();
        let c = &self.cfg;
        let _ = writeln!(
            s,
            "cfg cmd_cap={} hist_cap={} prompt={} set={} buffered={} short={} salt={} family={} ctor={} proc={}",
            c.cmd_cap,
            c.hist_cap,
            c.prompt,
            c.set,
            c.buffered as u8,
            c.short,
            c.salt,
            c.family,
            if c.use_new { "new" } else { "builder" },
            if c.derived { "derived" } else { "raw" }
        );
        if let Some(k) = c.build_fault {
            s.pop();
            let _ = writeln!(s, " buildfail={k}");
        }
        if c.builder_order != 0 {
            s.pop();
            let _ = writeln!(s, " border={}", c.builder_order);
        }
        for e in &self.events {
            for f in &e.faults {
                let _ = writeln!(s, "fail call={} n={}", f.call, f.n);
            }
            match &e.ev {
                Ev::Rx(b) => {
                    let _ = write!(s, "rx {:02x}", b);
                    // readable comment, ignored by the parser
                    let d = match *b {
                        0x20..=0x7e => format!("  # '{}'", *b as char),
                        0x0d => "  # CR".into(),
                        0x0a => "  # LF".into(),
                        0x08 => "  # BS".into(),
                        0x09 => "  # TAB".into(),
                        0x1b => "  # ESC".into(),
                        _ => String::new(),
                    };
                    s.push_str(&d);
                    s.push('\n');
                }
                Ev::Write(calls, ret) => {
                    let _ = write!(s, "write ret={}", ret_tag(*ret));
                    calls_to_text(calls, &mut s);
                    s.push('\n');
                }
                Ev::Prompt(i) => {
                    let _ = writeln!(s, "prompt {}", i);
                }
                Ev::Set(i) => {
                    let _ = writeln!(s, "set {}", i);
                }
                Ev::Handler(h) => {
                    let _ = write!(
                        s,
                        "handler ret={} prompt={}{}{}",
                        ret_tag(h.ret),
                        h.prompt.map(|p| p.to_string()).unwrap_or_else(|| "-".into()),
                        if h.prompt_first { " pfirst=1" } else { "" },
                        h.pre_prompt.map(|p| format!(" pprompt={p}")).unwrap_or_default()
                    );
                    calls_to_text(&h.calls, &mut s);
                    s.push('\n');
                }
            }
        }
        s
    }

    pub fn from_text(text: &str) -> Result<Trace, String> {
        let mut cfg: Option<Cfg> = None;
        let mut events = Vec::new();
        let mut pending_faults: Vec<Fault> = Vec::new();
        for (ln, raw) in text.lines().enumerate() {
            let line = raw.split('#').next().unwrap_or("").trim();
            if line.is_empty() {
                continue;
            }
            let err = |m: String| format!("line {}: {}", ln + 1, m);
            let mut toks = line.split_whitespace();
            let head = toks.next().unwrap();
            match head {
                "cfg" => {
                    let mut c = Cfg::default();
                    for t in toks {
                        if let Some(v) = kv(t, "cmd_cap") {
                            c.cmd_cap = v.parse().map_err(|_| err(format!("bad {t}")))?;
                        } else if let Some(v) = kv(t, "hist_cap") {
                            c.hist_cap = v.parse().map_err(|_| err(format!("bad {t}")))?;
                        } else if let Some(v) = kv(t, "prompt") {
                            c.prompt = v.parse().map_err(|_| err(format!("bad {t}")))?;
                        } else if let Some(v) = kv(t, "set") {
                            c.set = v.parse().map_err(|_| err(format!("bad {t}")))?;
                        } else if let Some(v) = kv(t, "buffered") {
                            c.buffered = v == "1";
                        } else if let Some(v) = kv(t, "short") {
                            c.short = v.parse().map_err(|_| err(format!("bad {t}")))?;
                        } else if let Some(v) = kv(t, "salt") {
                            c.salt = v.parse().map_err(|_| err(format!("bad {t}")))?;
                        } else if let Some(v) = kv(t, "family") {
                            c.family = v.to_string();
                        } else if let Some(v) = kv(t, "ctor") {
                            c.use_new = v == "new";
                        } else if let Some(v) = kv(t, "proc") {
                            c.derived = v == "derived";
                        } else if let Some(v) = kv(t, "border") {
                            c.builder_order = v.parse().map_err(|_| err(format!("bad {t}")))?;
                        } else if let Some(v) = kv(t, "buildfail") {
                            c.build_fault = Some(v.parse().map_err(|_| err(format!("bad {t}")))?);
                        } else {
                            return Err(err(format!("unknown cfg key {t}")));
                        }
                    }
                    if c.prompt >= PROMPTS.len() {
                        return Err(err("prompt index out of range".into()));
                    }
                    cfg = Some(c);
                }
                "fail" => {
                    let mut f = Fault { call: 0, n: 1 };
                    for t in toks {
                        if let Some(v) = kv(t, "call") {
                            f.call = v.parse().map_err(|_| err(format!("bad {t}")))?;
                        } else if let Some(v) = kv(t, "n") {
                            f.n = v.parse().map_err(|_| err(format!("bad {t}")))?;
                        } else {
                            return Err(err(format!("unknown fail key {t}")));
                        }
                    }
                    pending_faults.push(f);
                }
                "rx" => {
                    let h = toks.next().ok_or_else(|| err("rx needs a byte".into()))?;
                    let b = u8::from_str_radix(h, 16).map_err(|_| err(format!("bad byte {h}")))?;
                    events.push(Event {
                        ev: Ev::Rx(b),
                        faults: std::mem::take(&mut pending_faults),
                    });
                }
                "write" => {
                    let mut ret = Ret::Ok;
                    let mut calls = Vec::new();
                    for t in toks {
                        if let Some(v) = kv(t, "ret") {
                            ret = parse_ret(v).map_err(err)?;
                        } else {
                            calls.push(parse_call(t).map_err(err)?);
                        }
                    }
                    events.push(Event {
                        ev: Ev::Write(calls, ret),
                        faults: std::mem::take(&mut pending_faults),
                    });
                }
                "prompt" => {
                    let i: usize = toks
                        .next()
                        .and_then(|v| v.parse().ok())
                        .ok_or_else(|| err("prompt needs an index".into()))?;
                    if i >= PROMPTS.len() {
                        return Err(err("prompt index out of range".into()));
                    }
                    events.push(Event {
                        ev: Ev::Prompt(i),
                        faults: std::mem::take(&mut pending_faults),
                    });
                }
                "set" => {
                    let i: usize = toks
                        .next()
                        .and_then(|v| v.parse().ok())
                        .ok_or_else(|| err("set needs an index".into()))?;
                    events.push(Event {
                        ev: Ev::Set(i),
                        faults: std::mem::take(&mut pending_faults),
                    });
                }
                "handler" => {
                    let mut h = HScript::default();
                    for t in toks {
                        if let Some(v) = kv(t, "ret") {
                            h.ret = parse_ret(v).map_err(err)?;
                        } else if let Some(v) = kv(t, "pfirst") {
                            h.prompt_first = v == "1";
                        } else if let Some(v) = kv(t, "pprompt") {
                            let i: usize = v.parse().map_err(|_| err(format!("bad {t}")))?;
                            if i >= PROMPTS.len() {
                                return Err(err("prompt index out of range".into()));
                            }
                            h.pre_prompt = Some(i);
                        } else if let Some(v) = kv(t, "prompt") {
                            h.prompt = if v == "-" {
                                None
                            } else {
                                let i: usize = v.parse().map_err(|_| err(format!("bad {t}")))?;
                                if i >= PROMPTS.len() {
                                    return Err(err("prompt index out of range".into()));
                                }
                                Some(i)
                            };
                        } else {
                            h.calls.push(parse_call(t).map_err(err)?);
                        }
                    }
                    events.push(Event {
                        ev: Ev::Handler(h),
                        faults: std::mem::take(&mut pending_faults),
                    });
                }
                other => return Err(err(format!("unknown event {other}"))),
            }
        }
        let cfg = cfg.ok_or_else(|| "no cfg line".to_string())?;
        Ok(Trace { cfg, events })
    }

    /// Digest of the trace text (used to count distinct traces)
    pub fn digest(&self) -> u64 {
        crate::prng::fnv1a(self.to_text().as_bytes())
    }

    pub fn rx_count(&self) -> usize {
        self.events
            .iter()
            .filter(|e| matches!(e.ev, Ev::Rx(_)))
            .count()
    }
}
