//! Specification of what a submitted line means: tokens (README quoting rules),
//! argument classification, and whether the line is a help request.
//! Written from README / property statements, not from the code.

/// Result of tokenising one line
#[derive(Clone, Debug, PartialEq, Eq)]
pub enum Tokens {
    /// The documented rules give exactly this list
    Exact(Vec<String>),
    /// The line uses something the documentation leaves open (a backslash inside
    /// quotes followed by anything but `"` or `\`, or ending the line)
    Unspecified,
}

pub fn tokens(line: &str) -> Tokens {
    let chars: Vec<char> = line.chars().collect();
    let mut out: Vec<String> = Vec::new();
    let mut i = 0;
    while i < chars.len() {
        let c = chars[i];
        if c == ' ' {
            i += 1;
            continue;
        }
        if c == '"' {
            // quoted token: up to the next unescaped quote or end of line
            i += 1;
            let mut tok = String::new();
            loop {
                if i >= chars.len() {
                    break; // unterminated: runs to the end of the line
                }
                let d = chars[i];
                if d == '"' {
                    i += 1;
                    break;
                }
                if d == '\\' {
                    if i + 1 >= chars.len() {
                        return Tokens::Unspecified;
                    }
                    let e = chars[i + 1];
                    if e == '"' || e == '\\' {
                        tok.push(e);
                        i += 2;
                        continue;
                    }
                    return Tokens::Unspecified;
                }
                tok.push(d);
                i += 1;
            }
            out.push(tok);
            // a new token may start directly after the closing quote
            continue;
        }
        // plain token: up to the next space; quotes and backslashes inside are ordinary
        let mut tok = String::new();
        while i < chars.len() && chars[i] != ' ' {
            tok.push(chars[i]);
            i += 1;
        }
        out.push(tok);
    }
    Tokens::Exact(out)
}

#[derive(Clone, Debug, PartialEq, Eq)]
pub enum Arg {
    DoubleDash,
    Long(String),
    Short(char),
    Value(String),
}

/// Classification of the tokens after the command name
pub fn args(tokens: &[String]) -> Vec<Arg> {
    let mut out = Vec::new();
    let mut values_only = false;
    for t in tokens {
        if values_only {
            out.push(Arg::Value(t.clone()));
        } else if t == "--" {
            values_only = true;
            out.push(Arg::DoubleDash);
        } else if let Some(name) = t.strip_prefix("--") {
            out.push(Arg::Long(name.to_string()));
        } else if t.starts_with('-') && t.chars().count() > 1 {
            for c in t.chars().skip(1) {
                out.push(Arg::Short(c));
            }
        } else {
            out.push(Arg::Value(t.clone()));
        }
    }
    out
}

#[derive(Clone, Copy, Debug, PartialEq, Eq)]
pub enum Route {
    /// Goes to the handler
    Handler,
    /// Answered by the library (help)
    Help,
    /// `help` followed by an option or `--`: the statements do not say
    Unspecified,
}

/// Where a non-empty token list goes when the `help` facility is compiled in
pub fn route(name: &str, args: &[Arg]) -> Route {
    if name == "help" {
        return match args.first() {
            None | Some(Arg::Value(_)) => Route::Help,
            Some(_) => Route::Unspecified,
        };
    }
    if args
        .iter()
        .any(|a| matches!(a, Arg::Long(n) if n == "help") || matches!(a, Arg::Short('h')))
    {
        Route::Help
    } else {
        Route::Handler
    }
}

#[cfg(test)]
mod tests {
    use super::*;

    fn ex(v: &[&str]) -> Tokens {
        Tokens::Exact(v.iter().map(|s| s.to_string()).collect())
    }

    #[test]
    fn readme_table() {
        assert_eq!(tokens("cmd abc def"), ex(&["cmd", "abc", "def"]));
        assert_eq!(tokens(r#"cmd "abc def""#), ex(&["cmd", "abc def"]));
        assert_eq!(tokens(r#"cmd "abc\" d\\ef""#), ex(&["cmd", r#"abc" d\ef"#]));
        assert_eq!(tokens(r#"cmd "abc def"test"#), ex(&["cmd", "abc def", "test"]));
        assert_eq!(tokens(r#"cmd "abc def""test 2""#), ex(&["cmd", "abc def", "test 2"]));
        assert_eq!(tokens(r#""" abc"#), ex(&["", "abc"]));
        assert_eq!(tokens(r#""" """#), ex(&["", ""]));
        assert_eq!(tokens(r#"  a   "b"#), ex(&["a", "b"]));
        assert_eq!(tokens(r#"a"b c"#), ex(&["a\"b", "c"]));
        assert_eq!(tokens(r#""a\x""#), Tokens::Unspecified);
        assert_eq!(tokens("   "), ex(&[]));
    }

    #[test]
    fn classify() {
        let t: Vec<String> = ["--", "-a"].iter().map(|s| s.to_string()).collect();
        assert_eq!(args(&t), vec![Arg::DoubleDash, Arg::Value("-a".into())]);
        let t: Vec<String> = ["-ab", "--x", "-", "", "---y"].iter().map(|s| s.to_string()).collect();
        assert_eq!(
            args(&t),
            vec![
                Arg::Short('a'),
                Arg::Short('b'),
                Arg::Long("x".into()),
                Arg::Value("-".into()),
                Arg::Value("".into()),
                Arg::Long("-y".into())
            ]
        );
    }
}
