//! Byte-level reference decoder (C04, and the "dropped / still accepted" half of
//! C02). Written from the property statements, not from the code.
//!
//! * each well-formed UTF-8 scalar from U+0020 upward yields one character
//!   (U+007F is left open -> Unspec);
//! * BS, TAB -> Backspace, Tab;
//! * CR / LF: an Enter-producing terminator opens a pair; the *other*
//!   terminator arriving immediately closes it silently; anything else clears it;
//! * ESC `[` parameter/intermediate bytes (0x20..=0x3F) final (0x40..=0x7E):
//!   A/B/C/D -> Up/Down/Right/Left, other finals nothing;
//! * every other C0 control (incl. a lone ESC) is ignored;
//! * bytes >= 0x80 that do not complete a valid scalar value are dropped, a
//!   following well-formed character is accepted (strict UTF-8, Unicode table 3-7).
//!
//! Outside the statements' domain (`Unspec`): DEL; a C0 control while a character
//! is partly received; bytes other than 0x20..=0x7E inside a CSI sequence.
//! After an `Unspec` byte the caller re-synchronises this decoder with the
//! state the implementation shows (adopt what is not specified).

#[derive(Clone, Copy, Debug, PartialEq, Eq)]
pub enum Key {
    Backspace,
    Tab,
    Enter,
    Up,
    Down,
    Left,
    Right,
}

#[derive(Clone, Debug, PartialEq, Eq)]
pub enum Decoded {
    Nothing,
    Char(char),
    Key(Key),
    Unspec,
}

/// Why bytes were dropped / what notable thing the last byte did (reach bookkeeping only)
#[derive(Clone, Copy, Debug, PartialEq, Eq)]
pub enum Note {
    StrayContinuation,
    Truncated,
    Overlong,
    Surrogate,
    TooLarge,
    InvalidLead,
    CsiWithParams,
    CsiIgnoredFinal,
    LoneEsc,
    PairCrLf,
    PairLfCr,
    SameTerminatorTwice,
    IgnoredC0,
}

#[derive(Clone, Debug, Default)]
pub struct RefDecoder {
    /// set by `feed` (reach bookkeeping only, never used for verdicts)
    pub note: Option<Note>,
    csi_params: usize,
    /// the previous byte was a terminator (whether or not it produced Enter)
    prev_term: Option<u8>,
    /// ESC was the previous byte
    esc: bool,
    /// inside `ESC [` ... final
    csi: bool,
    /// an Enter-producing CR (b'\r') or LF (b'\n') was the previous byte
    open_pair: Option<u8>,
    /// partly received character
    utf8: Vec<u8>,
    utf8_need: usize,
}

/// Coarse decoder phase, for the interleaving reach measure
#[derive(Clone, Copy, Debug, PartialEq, Eq, Hash)]
pub enum Phase {
    Ground,
    MidChar,
    AfterEsc,
    InCsi,
    AfterCr,
    AfterLf,
}

impl RefDecoder {
    pub fn phase(&self) -> Phase {
        if self.csi {
            Phase::InCsi
        } else if self.esc {
            Phase::AfterEsc
        } else if self.utf8_need > 0 {
            Phase::MidChar
        } else if self.open_pair == Some(b'\r') {
            Phase::AfterCr
        } else if self.open_pair == Some(b'\n') {
            Phase::AfterLf
        } else {
            Phase::Ground
        }
    }

    pub fn utf8_pending(&self) -> usize {
        self.utf8_need
    }

    /// Adopt the implementation's decoder state after an unspecified byte
    pub fn resync(&mut self, csi: bool, last_byte: u8, utf8_buf: [u8; 4], expected: u8, partial: u8) {
        self.csi = csi;
        self.esc = !csi && last_byte == 0x1b;
        self.open_pair = if !csi && (last_byte == b'\r' || last_byte == b'\n') {
            Some(last_byte)
        } else {
            None
        };
        self.utf8.clear();
        self.utf8_need = 0;
        if expected > 0 && (partial as usize) <= 4 && (partial as usize + expected as usize) <= 4 {
            self.utf8.extend_from_slice(&utf8_buf[..partial as usize]);
            self.utf8_need = expected as usize;
        }
    }

    pub fn feed(&mut self, b: u8) -> Decoded {
        self.note = None;
        let prev_term = self.prev_term.take();
        if b == b'\r' || b == b'\n' {
            self.prev_term = Some(b);
        }
        if self.csi {
            return match b {
                0x20..=0x3f => {
                    self.csi_params += 1;
                    Decoded::Nothing
                }
                0x40..=0x7e => {
                    self.csi = false;
                    if self.csi_params > 0 {
                        self.note = Some(Note::CsiWithParams);
                    }
                    if !(b'A'..=b'D').contains(&b) {
                        self.note = Some(Note::CsiIgnoredFinal);
                    }
                    match b {
                        b'A' => Decoded::Key(Key::Up),
                        b'B' => Decoded::Key(Key::Down),
                        b'C' => Decoded::Key(Key::Right),
                        b'D' => Decoded::Key(Key::Left),
                        _ => Decoded::Nothing,
                    }
                }
                _ => Decoded::Unspec,
            };
        }
        let was_esc = self.esc;
        self.esc = false;
        if was_esc && b == b'[' {
            if self.utf8_need > 0 {
                // can only happen after a resync; keep it simple
                return Decoded::Unspec;
            }
            self.open_pair = None;
            self.csi = true;
            self.csi_params = 0;
            return Decoded::Nothing;
        }
        if was_esc {
            self.note = Some(Note::LoneEsc);
        }
        let pair = self.open_pair.take();

        if b < 0x20 {
            if self.utf8_need > 0 {
                // control byte inside a partly received character: unspecified
                if b == 0x1b {
                    self.esc = true;
                }
                return Decoded::Unspec;
            }
            return match b {
                0x08 => Decoded::Key(Key::Backspace),
                0x09 => Decoded::Key(Key::Tab),
                b'\r' | b'\n' => {
                    let other = if b == b'\r' { b'\n' } else { b'\r' };
                    if pair == Some(other) {
                        // second half of an adjacent pair, read greedily
                        self.note = Some(if b == b'\n' { Note::PairCrLf } else { Note::PairLfCr });
                        Decoded::Nothing
                    } else {
                        if prev_term == Some(b) {
                            self.note = Some(Note::SameTerminatorTwice);
                        }
                        self.open_pair = Some(b);
                        Decoded::Key(Key::Enter)
                    }
                }
                0x1b => {
                    self.esc = true;
                    Decoded::Nothing
                }
                _ => {
                    self.note = Some(Note::IgnoredC0);
                    Decoded::Nothing
                }
            };
        }

        if b < 0x80 {
            // ASCII printable: a partly received character is dropped
            if self.utf8_need > 0 {
                self.note = Some(Note::Truncated);
            }
            self.utf8.clear();
            self.utf8_need = 0;
            if b == 0x7f {
                return Decoded::Unspec;
            }
            return Decoded::Char(b as char);
        }

        match b {
            0x80..=0xbf => {
                if self.utf8_need > 0 {
                    self.utf8.push(b);
                    self.utf8_need -= 1;
                    if self.utf8_need == 0 {
                        let buf = std::mem::take(&mut self.utf8);
                        return match std::str::from_utf8(&buf) {
                            Ok(s) => {
                                let mut it = s.chars();
                                match (it.next(), it.next()) {
                                    (Some(c), None) => Decoded::Char(c),
                                    _ => Decoded::Nothing,
                                }
                            }
                            Err(_) => {
                                self.note = Some(match buf[0] {
                                    0xc0 | 0xc1 => Note::Overlong,
                                    0xe0 | 0xf0 => Note::Overlong,
                                    0xed => Note::Surrogate,
                                    0xf4 => Note::TooLarge,
                                    _ => Note::InvalidLead,
                                });
                                Decoded::Nothing
                            }
                        };
                    }
                    return Decoded::Nothing;
                }
                self.note = Some(Note::StrayContinuation);
                Decoded::Nothing
            }
            0xc0..=0xf7 => {
                if self.utf8_need > 0 {
                    self.note = Some(Note::Truncated);
                }
                self.utf8.clear();
                self.utf8.push(b);
                self.utf8_need = if b >= 0xf0 {
                    3
                } else if b >= 0xe0 {
                    2
                } else {
                    1
                };
                Decoded::Nothing
            }
            _ => {
                // 0xF8..=0xFF can never start a character and produce nothing. Whether a
                // partly received character survives them is not settled by the
                // statements -> unspecified, caller re-synchronises.
                self.note = Some(Note::InvalidLead);
                if self.utf8_need > 0 {
                    Decoded::Unspec
                } else {
                    Decoded::Nothing
                }
            }
        }
    }
}

#[cfg(test)]
mod tests {
    use super::*;

    fn run(bytes: &[u8]) -> Vec<Decoded> {
        let mut d = RefDecoder::default();
        bytes.iter().map(|&b| d.feed(b)).filter(|x| *x != Decoded::Nothing).collect()
    }

    #[test]
    fn terminators() {
        let e = Decoded::Key(Key::Enter);
        assert_eq!(run(b"\r\n"), vec![e.clone()]);
        assert_eq!(run(b"\r\n\r\n"), vec![e.clone(), e.clone()]);
        assert_eq!(run(b"\r\n\r"), vec![e.clone(), e.clone()]);
        assert_eq!(run(b"\r\r"), vec![e.clone(), e.clone()]);
        assert_eq!(run(b"\n\r\n"), vec![e.clone(), e.clone()]);
        assert_eq!(run(b"\r\x1b\n"), vec![e.clone(), e.clone()]);
    }

    #[test]
    fn csi_and_utf8() {
        assert_eq!(run(b"\x1b[24B"), vec![Decoded::Key(Key::Down)]);
        assert_eq!(run(b"\x1b[Za"), vec![Decoded::Char('a')]);
        assert_eq!(run(b"\x1ba"), vec![Decoded::Char('a')]);
        assert_eq!(run(b"\x1b\x1b[A"), vec![Decoded::Key(Key::Up)]);
        assert_eq!(run("é".as_bytes()), vec![Decoded::Char('é')]);
        assert_eq!(run(b"\xc0\x80a"), vec![Decoded::Char('a')]);
        assert_eq!(run(b"\xed\xa0\x80"), vec![]);
        assert_eq!(run(b"\xe1\x80\xc3\xa9"), vec![Decoded::Char('é')]);
        assert_eq!(run(b"\xf4\x90\x80\x80\xf0\x9f\x98\x80"), vec![Decoded::Char('😀')]);
    }
}
