//! Specification of the stateful parts, as functions / relations on one
//! transition: ideal editor (C05), history list (C10), Tab relation (C11) and
//! output framing (C13). Written from the property statements.

/// Abstract editor state: the line as scalar values plus a cursor in 0..=len
#[derive(Clone, Debug, PartialEq, Eq)]
pub struct Line {
    pub text: Vec<char>,
    pub cursor: usize,
}

impl Line {
    pub fn utf8_len(&self) -> usize {
        self.text.iter().map(|c| c.len_utf8()).sum()
    }
    pub fn string(&self) -> String {
        self.text.iter().collect()
    }
    pub fn empty() -> Self {
        Line {
            text: Vec::new(),
            cursor: 0,
        }
    }
    pub fn at_end(s: &str) -> Self {
        let text: Vec<char> = s.chars().collect();
        let cursor = text.len();
        Line { text, cursor }
    }
}

pub mod editor {
    use super::Line;

    /// Insert `c` at the cursor iff the UTF-8 length stays within `cap`.
    /// Returns (post, accepted).
    pub fn insert(pre: &Line, c: char, cap: usize) -> (Line, bool) {
        if pre.utf8_len() + c.len_utf8() > cap {
            return (pre.clone(), false);
        }
        let mut post = pre.clone();
        post.text.insert(pre.cursor, c);
        post.cursor += 1;
        (post, true)
    }

    pub fn backspace(pre: &Line) -> Line {
        let mut post = pre.clone();
        if pre.cursor > 0 {
            post.text.remove(pre.cursor - 1);
            post.cursor -= 1;
        }
        post
    }

    pub fn left(pre: &Line) -> Line {
        let mut post = pre.clone();
        post.cursor = pre.cursor.saturating_sub(1);
        post
    }

    pub fn right(pre: &Line) -> Line {
        let mut post = pre.clone();
        post.cursor = (pre.cursor + 1).min(pre.text.len());
        post
    }
}

pub mod history {
    /// Abstract history: entries oldest first + navigation position
    #[derive(Clone, Debug, PartialEq, Eq)]
    pub struct Hist {
        pub entries: Vec<Vec<u8>>,
        pub nav: Option<usize>,
    }

    impl Hist {
        pub fn total(&self) -> usize {
            self.entries.iter().map(|e| e.len() + 1).sum()
        }
    }

    /// Is `line` recorded at all with a buffer of `cap` bytes?
    pub fn recordable(line: &[u8], cap: usize) -> bool {
        !line.is_empty() && line.len() + 1 <= cap
    }

    /// Entry list after submitting `line`
    pub fn push(entries: &[Vec<u8>], line: &[u8], cap: usize) -> Vec<Vec<u8>> {
        let mut e: Vec<Vec<u8>> = entries.to_vec();
        if !recordable(line, cap) {
            return e;
        }
        if e.last().map(|l| l.as_slice()) == Some(line) {
            return e;
        }
        // re-submitting makes it the newest: drop the older copy
        e.retain(|x| x.as_slice() != line);
        // oldest dropped first, only as many as necessary
        while e.iter().map(|x| x.len() + 1).sum::<usize>() + line.len() + 1 > cap {
            e.remove(0);
        }
        e.push(line.to_vec());
        e
    }

    /// Up: (new nav, Some(recalled line)) or None if nothing happens
    pub fn up(h: &Hist) -> Option<(usize, Vec<u8>)> {
        match h.nav {
            None => {
                if h.entries.is_empty() {
                    None
                } else {
                    let i = h.entries.len() - 1;
                    Some((i, h.entries[i].clone()))
                }
            }
            Some(0) => None,
            Some(i) => Some((i - 1, h.entries[i - 1].clone())),
        }
    }

    /// Down: (new nav, line shown). Past the newest: empty line, navigation ends.
    pub fn down(h: &Hist) -> (Option<usize>, Vec<u8>) {
        match h.nav {
            Some(i) if i + 1 < h.entries.len() => (Some(i + 1), h.entries[i + 1].clone()),
            _ => (None, Vec::new()),
        }
    }
}

pub mod tab {
    use super::Line;

    /// Longest common prefix (in scalar values) of all strings
    fn common(items: &[Vec<char>]) -> Vec<char> {
        let mut it = items.iter();
        let mut acc: Vec<char> = match it.next() {
            Some(f) => f.clone(),
            None => return Vec::new(),
        };
        for x in it {
            let n = acc.iter().zip(x.iter()).take_while(|(a, b)| a == b).count();
            acc.truncate(n);
        }
        acc
    }

    fn ulen(s: &[char]) -> usize {
        s.iter().map(|c| c.len_utf8()).sum()
    }

    /// The Tab relation R(pre, names, cap, post). `names` are the candidate
    /// command names. Returns Err(reason) if `post` is not an allowed outcome.
    ///
    /// Only what the statement says is demanded: which non-blank text the line holds
    /// afterwards, whether a blank was added, that nothing typed is altered and that
    /// the buffer is not exceeded. Where the cursor ends up and what happens to blanks
    /// that were already to the right of the cursor is left to the implementation (the
    /// screen must agree with it - C06).
    pub fn check(pre: &Line, names: &[&str], cap: usize, post: &Line) -> Result<(), String> {
        let unchanged = post == pre;

        // --- always ---
        if ulen(&post.text) > cap {
            return Err(format!("line exceeds command buffer ({} > {})", ulen(&post.text), cap));
        }
        let nb_pre: Vec<char> = pre.text.iter().copied().filter(|c| *c != ' ').collect();
        let nb_post: Vec<char> = post.text.iter().copied().filter(|c| *c != ' ').collect();
        if !nb_post.starts_with(&nb_pre) {
            return Err("non-blank characters already typed were altered or removed".into());
        }

        // --- decompose the line ---
        let mut end = pre.text.len();
        while end > 0 && pre.text[end - 1] == ' ' {
            end -= 1;
        }
        let base: &[char] = &pre.text[..end];
        let trailing = pre.text.len() - end;
        let start = base.iter().position(|c| *c != ' ').unwrap_or(base.len());
        let word: &[char] = &base[start..];
        let argument_started = word.contains(&' ');

        let word_s: String = word.iter().collect();
        let m: Vec<Vec<char>> = if word.is_empty() || argument_started {
            Vec::new()
        } else {
            names
                .iter()
                .filter(|n| n.starts_with(word_s.as_str()))
                .map(|n| n.chars().skip(word.len()).collect())
                .collect()
        };

        if m.is_empty() {
            // nothing matches / argument started / empty word: unchanged
            return if unchanged {
                Ok(())
            } else {
                Err(format!(
                    "nothing to complete (word {:?}) but line changed to {:?} cursor {}",
                    word_s,
                    post.string(),
                    post.cursor
                ))
            };
        }

        if trailing > 0 && pre.cursor > end {
            // a blank has been typed after the word and the cursor is behind it: the word is
            // finished and an argument has been started, so the line must be left alone.
            // (With the cursor in or right behind the word the blanks are merely to its
            // right: the line is a single partially typed word and is completed, below.)
            return if unchanged {
                Ok(())
            } else {
                Err(format!(
                    "cursor is behind a blank that follows the word {:?} (an argument has been started) but the line changed to {:?} cursor {}",
                    word_s,
                    post.string(),
                    post.cursor
                ))
            };
        }

        let k = common(&m);
        let unique = m.len() == 1;
        // the same name offered twice (a user command called `help` next to the built-in one):
        // whether that is "one name" is not something the statement settles
        let same_name_twice = m.len() > 1 && m.iter().all(|x| *x == m[0]);

        // the line afterwards: its text without trailing blanks, and how many blanks follow
        let mut pend = post.text.len();
        while pend > 0 && post.text[pend - 1] == ' ' {
            pend -= 1;
        }
        let ptext: &[char] = &post.text[..pend];
        let ptrail = post.text.len() - pend;

        let mut full: Vec<char> = base.to_vec();
        full.extend_from_slice(&k);
        if ulen(&full) <= cap {
            // the longest common continuation fits: it must be there, in full
            if ptext != full.as_slice() {
                return Err(format!(
                    "expected the word to become {:?} ({} candidate(s), common continuation {:?}), got {:?}",
                    full.iter().collect::<String>(),
                    m.len(),
                    k.iter().collect::<String>(),
                    post.string()
                ));
            }
            if unique {
                // a trailing space exactly when one name matches and there is room for it
                let room = ulen(&full) + 1 <= cap;
                if room && ptrail == 0 {
                    return Err(format!("one name matches and there is room, but no trailing space: {:?}", post.string()));
                }
                if ptrail > trailing.max(1) {
                    return Err(format!("more than one blank added: {:?} -> {:?}", pre.string(), post.string()));
                }
            } else if same_name_twice {
                if ptrail > trailing.max(1) {
                    return Err(format!("more than one blank added: {:?} -> {:?}", pre.string(), post.string()));
                }
            } else if ptrail > trailing {
                return Err(format!(
                    "{} names match but a trailing space was added: {:?} -> {:?}",
                    m.len(),
                    pre.string(),
                    post.string()
                ));
            }
            return Ok(());
        }

        // K does not fit: the word unchanged, or extended by a proper prefix of K; no blank added
        if ptrail > trailing {
            return Err(format!(
                "the continuation {:?} does not fit (cap {}) but a blank was added: {:?}",
                k.iter().collect::<String>(),
                cap,
                post.string()
            ));
        }
        if ptext.starts_with(base) {
            let added = &ptext[base.len()..];
            if added.len() < k.len() && k.starts_with(added) {
                return Ok(());
            }
        }
        Err(format!(
            "continuation {:?} does not fit (cap {}); expected no change or a proper prefix of it, got {:?}",
            k.iter().collect::<String>(),
            cap,
            post.string()
        ))
    }
}

pub mod frame {
    /// Application text as it must appear on the wire: each LF becomes CR LF
    pub fn conv(out: &str) -> Vec<u8> {
        let mut v = Vec::with_capacity(out.len() + 8);
        for &b in out.as_bytes() {
            if b == b'\n' {
                v.push(b'\r');
            }
            v.push(b);
        }
        v
    }

    /// Is a line break owed after the output? (non-empty and not ended by one)
    pub fn needs_break(out: &str) -> bool {
        !out.is_empty() && !out.ends_with('\n')
    }
}

#[cfg(test)]
mod tests {
    use super::*;

    #[test]
    fn hist_push() {
        let e = history::push(&[], b"abc", 8);
        assert_eq!(e, vec![b"abc".to_vec()]);
        let e = history::push(&e, b"de", 8);
        assert_eq!(e.len(), 2); // 4 + 3 = 7 <= 8
        let e = history::push(&e, b"abc", 8);
        assert_eq!(e, vec![b"de".to_vec(), b"abc".to_vec()]);
        let e = history::push(&e, b"xyzw", 8);
        assert_eq!(e, vec![b"xyzw".to_vec()]); // 3+4+5 > 8, 4+5 > 8
        let e2 = history::push(&e, b"12345678", 8);
        assert_eq!(e2, e);
    }

    #[test]
    fn tab_relation() {
        let names = ["get-led", "set", "get-adc", "help"];
        let pre = Line::at_end("g");
        assert!(tab::check(&pre, &names, 32, &Line::at_end("get-")).is_ok());
        assert!(tab::check(&pre, &names, 32, &Line::at_end("get-led ")).is_err());
        assert!(tab::check(&Line::at_end("s"), &names, 32, &Line::at_end("set ")).is_ok());
        assert!(tab::check(&Line::at_end("s"), &names, 3, &Line::at_end("set")).is_ok());
        assert!(tab::check(&Line::at_end("s"), &names, 2, &Line::at_end("se")).is_ok());
        assert!(tab::check(&Line::at_end("s"), &names, 2, &Line::at_end("s")).is_ok());
        assert!(tab::check(&Line::at_end("x"), &names, 9, &Line::at_end("x")).is_ok());
        assert!(tab::check(&Line::at_end("set a"), &names, 9, &Line::at_end("set a")).is_ok());
        // trailing blank, cursor behind it: must be left alone; cursor right behind the word: must complete
        assert!(tab::check(&Line::at_end("s "), &names, 9, &Line::at_end("s ")).is_ok());
        assert!(tab::check(&Line::at_end("s "), &names, 9, &Line::at_end("set ")).is_err());
        let pre = Line { text: "s ".chars().collect(), cursor: 1 };
        assert!(tab::check(&pre, &names, 9, &pre).is_err());
        assert!(tab::check(&pre, &names, 9, &Line::at_end("set ")).is_ok());
        // blanks that were right of the cursor may stay; the cursor may be anywhere
        let pre = Line { text: "g   ".chars().collect(), cursor: 1 };
        assert!(tab::check(&pre, &names, 32, &Line { text: "get-   ".chars().collect(), cursor: 4 }).is_ok());
        assert!(tab::check(&pre, &names, 32, &Line::at_end("get-")).is_ok());
        assert!(tab::check(&pre, &names, 32, &Line::at_end("get-    ")).is_err());
        assert!(tab::check(&Line::at_end("g"), &names, 32, &Line::at_end("get- ")).is_err());
    }
}
