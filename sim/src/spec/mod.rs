//! Executable specification, written from the property statements and README.
pub mod decode;
pub mod line;
pub mod model;
