//! Minimisation: delta debugging on the event list plus simplification of the
//! configuration, keeping a candidate only if the SAME (property, check) fails.

use crate::exec::{ExecOpts, Failure};
use crate::trace::{Ev, Ret, Trace};

/// Outcome of one judged execution
pub struct Verdict {
    pub failures: Vec<Failure>,
    pub panic: Option<String>,
    pub harness_error: Option<String>,
}

pub fn judge(trace: &Trace) -> Verdict {
    judge_for(trace, None)
}

pub fn judge_for(trace: &Trace, prop: Option<&str>) -> Verdict {
    let t = trace.clone();
    let opts = match prop {
        Some(p) => ExecOpts::for_prop(p),
        None => ExecOpts::default(),
    };
    let r = std::panic::catch_unwind(move || crate::exec::execute(&t, &opts));
    match r {
        Ok(res) => Verdict {
            failures: res.failures,
            panic: None,
            harness_error: res.harness_error,
        },
        Err(_) => {
            let msg = crate::take_panic_message();
            let tick = crate::exec::CURRENT_TICK.with(|c| c.get());
            if crate::is_harness_panic(&msg) {
                return Verdict {
                    failures: Vec::new(),
                    panic: Some(msg.clone()),
                    harness_error: Some(format!("harness panicked: {msg}")),
                };
            }
            Verdict {
                failures: vec![Failure {
                    props: crate::exec::CURRENT_PROPS.with(|c| c.get()),
                    check: "panic",
                    tick: if tick == usize::MAX { 0 } else { tick },
                    detail: msg.clone(),
                }],
                panic: Some(msg),
                harness_error: None,
            }
        }
    }
}

pub fn has_target(v: &Verdict, prop: &str, check: &str) -> Option<usize> {
    if v.harness_error.is_some() {
        return None;
    }
    v.failures
        .iter()
        .find(|f| f.check == check && crate::prop_matches(f.props, prop))
        .map(|f| f.tick)
}

pub fn shrink(trace: &Trace, prop: &str, check: &str, budget: usize) -> Trace {
    let mut best = trace.clone();
    let mut spent = 0usize;
    let try_candidate = |cand: &Trace, best: &mut Trace, spent: &mut usize| -> bool {
        if *spent >= budget {
            return false;
        }
        *spent += 1;
        let v = judge_for(cand, Some(prop));
        if let Some(tick) = has_target(&v, prop, check) {
            let mut c = cand.clone();
            // nothing after the failing event matters
            if tick + 1 < c.events.len() {
                c.events.truncate(tick + 1);
            }
            *best = c;
            true
        } else {
            false
        }
    };

    // 0. truncate after the failing tick
    {
        let c = best.clone();
        try_candidate(&c, &mut best, &mut spent);
    }

    loop {
        let before = best.clone();

        // 1. remove chunks of events (ddmin style)
        let mut chunk = (best.events.len() / 2).max(1);
        while chunk >= 1 && spent < budget {
            let mut i = 0;
            while i < best.events.len() && spent < budget {
                let end = (i + chunk).min(best.events.len());
                let mut c = best.clone();
                c.events.drain(i..end);
                if !try_candidate(&c, &mut best, &mut spent) {
                    i += chunk;
                }
            }
            if chunk == 1 {
                break;
            }
            chunk /= 2;
        }

        // 2. configuration
        let cfg_edits: Vec<Box<dyn Fn(&mut Trace)>> = vec![
            Box::new(|t| t.cfg.short = 0),
            Box::new(|t| t.cfg.buffered = false),
            Box::new(|t| t.cfg.prompt = 0),
            Box::new(|t| t.cfg.salt = 0),
            Box::new(|t| t.cfg.hist_cap = 32),
            Box::new(|t| t.cfg.cmd_cap = 32),
            Box::new(|t| t.cfg.hist_cap /= 2),
            Box::new(|t| t.cfg.cmd_cap /= 2),
            Box::new(|t| t.cfg.hist_cap = t.cfg.hist_cap.saturating_sub(1)),
            Box::new(|t| t.cfg.cmd_cap = t.cfg.cmd_cap.saturating_sub(1)),
            Box::new(|t| t.cfg.set = 0),
        ];
        for e in &cfg_edits {
            let mut c = best.clone();
            e(&mut c);
            if c != best {
                try_candidate(&c, &mut best, &mut spent);
            }
        }

        // 3. per-event simplification
        let mut i = 0;
        while i < best.events.len() && spent < budget {
            let mut cands: Vec<Trace> = Vec::new();
            let ev = best.events[i].clone();
            if !ev.faults.is_empty() {
                let mut c = best.clone();
                c.events[i].faults.clear();
                cands.push(c);
                if ev.faults.len() > 1 {
                    for k in 0..ev.faults.len() {
                        let mut c = best.clone();
                        c.events[i].faults.remove(k);
                        cands.push(c);
                    }
                }
                for k in 0..ev.faults.len() {
                    if ev.faults[k].n != 1 {
                        let mut c = best.clone();
                        c.events[i].faults[k].n = 1;
                        cands.push(c);
                    }
                }
            }
            match &ev.ev {
                Ev::Rx(b) if *b >= 0x20 && *b < 0x7f && *b != b'a' => {
                    let mut c = best.clone();
                    c.events[i].ev = Ev::Rx(b'a');
                    cands.push(c);
                }
                Ev::Write(calls, ret) => {
                    for k in 0..calls.len() {
                        let mut c = best.clone();
                        let mut cs = calls.clone();
                        cs.remove(k);
                        c.events[i].ev = Ev::Write(cs, *ret);
                        cands.push(c);
                    }
                    for k in 0..calls.len() {
                        if calls[k].kind != crate::trace::WKind::Str {
                            let mut c = best.clone();
                            let mut cs = calls.clone();
                            cs[k].text = cs[k].spec_text();
                            cs[k].kind = crate::trace::WKind::Str;
                            c.events[i].ev = Ev::Write(cs, *ret);
                            cands.push(c);
                        }
                    }
                    if *ret != Ret::Ok {
                        let mut c = best.clone();
                        c.events[i].ev = Ev::Write(calls.clone(), Ret::Ok);
                        cands.push(c);
                    }
                }
                Ev::Handler(h) => {
                    for k in 0..h.calls.len() {
                        let mut c = best.clone();
                        let mut hh = h.clone();
                        hh.calls.remove(k);
                        c.events[i].ev = Ev::Handler(hh);
                        cands.push(c);
                    }
                    if h.prompt.is_some() {
                        let mut c = best.clone();
                        let mut hh = h.clone();
                        hh.prompt = None;
                        c.events[i].ev = Ev::Handler(hh);
                        cands.push(c);
                    }
                }
                _ => {}
            }
            let mut changed = false;
            for c in cands {
                if try_candidate(&c, &mut best, &mut spent) {
                    changed = true;
                    break;
                }
            }
            if !changed {
                i += 1;
            }
        }

        if best == before || spent >= budget {
            break;
        }
    }
    best
}
