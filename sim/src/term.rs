//! ECMA-48 subset terminal emulator, written for this harness (not the test
//! suite's). One cell per Unicode scalar value, unbounded line width.
//!
//! Supported: UTF-8 text, CR, LF (new line, column kept), BS (cursor left),
//! CUF `CSI n C`, CUB `CSI n D`, CHA `CSI n G` / HPA, ICH `CSI n @`, DCH `CSI n P`,
//! ECH `CSI n X`, EL `CSI 0|1|2 K`, save/restore cursor (`ESC 7`/`ESC 8`, `CSI s`/`CSI u`). Anything else is counted in `unsupported` — a harness
//! error, never a verdict.

#[derive(Clone, Debug, PartialEq, Eq)]
enum PState {
    Ground,
    Esc,
    Csi,
}

#[derive(Clone, Debug)]
pub struct Term {
    /// Completed lines (scroll-back), oldest first. Only the last few are kept.
    pub scroll: Vec<Vec<char>>,
    /// Number of completed lines ever (scroll may be truncated)
    pub lines_done: u64,
    pub line: Vec<char>,
    pub col: usize,
    saved_col: usize,
    state: PState,
    params: Vec<u8>,
    utf8: Vec<u8>,
    utf8_need: usize,
    pub unsupported: u64,
    pub last_unsupported: Option<String>,
    /// Malformed UTF-8 seen on the wire (reported by the C02 oracle)
    pub bad_utf8: u64,
}

const KEEP_SCROLL: usize = 64;

impl Default for Term {
    fn default() -> Self {
        Term::new()
    }
}

impl Term {
    pub fn new() -> Self {
        Term {
            scroll: Vec::new(),
            lines_done: 0,
            line: Vec::new(),
            col: 0,
            saved_col: 0,
            state: PState::Ground,
            params: Vec::new(),
            utf8: Vec::new(),
            utf8_need: 0,
            unsupported: 0,
            last_unsupported: None,
            bad_utf8: 0,
        }
    }

    /// Forget a partly received escape sequence / character (used after a sink
    /// fault: the lost bytes could have been anything)
    pub fn reset_parser(&mut self) {
        self.state = PState::Ground;
        self.params.clear();
        self.utf8.clear();
        self.utf8_need = 0;
    }

    pub fn in_ground(&self) -> bool {
        self.state == PState::Ground && self.utf8_need == 0
    }

    pub fn feed(&mut self, bytes: &[u8]) {
        for &b in bytes {
            self.feed_byte(b);
        }
    }

    /// Current line without trailing blanks
    pub fn line_trimmed(&self) -> &[char] {
        let mut n = self.line.len();
        while n > 0 && self.line[n - 1] == ' ' {
            n -= 1;
        }
        &self.line[..n]
    }

    pub fn line_is_blank(&self) -> bool {
        self.line_trimmed().is_empty()
    }

    fn put(&mut self, c: char) {
        while self.line.len() < self.col {
            self.line.push(' ');
        }
        if self.col == self.line.len() {
            self.line.push(c);
        } else {
            self.line[self.col] = c;
        }
        self.col += 1;
    }

    fn unsupported(&mut self, what: String) {
        self.unsupported += 1;
        self.last_unsupported = Some(what);
    }

    fn param(&mut self, default: usize) -> Option<usize> {
        if self.params.is_empty() {
            return Some(default);
        }
        if !self.params.iter().all(|b| b.is_ascii_digit()) {
            return None;
        }
        let s = std::str::from_utf8(&self.params).ok()?;
        s.parse::<usize>().ok()
    }

    fn feed_byte(&mut self, b: u8) {
        match self.state {
            PState::Esc => {
                self.state = PState::Ground;
                if b == b'[' {
                    self.state = PState::Csi;
                    self.params.clear();
                } else if b == b'7' {
                    self.saved_col = self.col;
                } else if b == b'8' {
                    self.col = self.saved_col;
                } else {
                    self.unsupported(format!("ESC 0x{b:02x}"));
                }
                return;
            }
            PState::Csi => {
                if (0x30..=0x3f).contains(&b) || (0x20..=0x2f).contains(&b) {
                    self.params.push(b);
                    return;
                }
                self.state = PState::Ground;
                if !(0x40..=0x7e).contains(&b) {
                    self.unsupported(format!("byte 0x{b:02x} inside CSI"));
                    return;
                }
                self.csi_final(b);
                return;
            }
            PState::Ground => {}
        }

        if self.utf8_need > 0 {
            if (0x80..0xC0).contains(&b) {
                self.utf8.push(b);
                self.utf8_need -= 1;
                if self.utf8_need == 0 {
                    let buf = std::mem::take(&mut self.utf8);
                    match std::str::from_utf8(&buf) {
                        Ok(s) => {
                            for c in s.chars() {
                                self.put(c);
                            }
                        }
                        Err(_) => {
                            self.bad_utf8 += 1;
                            self.put('\u{FFFD}');
                        }
                    }
                }
                return;
            }
            // truncated character
            self.bad_utf8 += 1;
            self.utf8.clear();
            self.utf8_need = 0;
            self.put('\u{FFFD}');
        }

        match b {
            0x1b => self.state = PState::Esc,
            b'\r' => self.col = 0,
            b'\n' => {
                let done = std::mem::take(&mut self.line);
                self.scroll.push(done);
                if self.scroll.len() > KEEP_SCROLL {
                    self.scroll.remove(0);
                }
                self.lines_done += 1;
                // column is kept (LF is a pure line feed)
            }
            0x08 => self.col = self.col.saturating_sub(1),
            // BEL rings, NUL is padding: neither changes what is displayed
            0x07 | 0x00 => {}
            0x00..=0x1f | 0x7f => self.unsupported(format!("control 0x{b:02x}")),
            0x20..=0x7e => self.put(b as char),
            0x80..=0xbf => {
                self.bad_utf8 += 1;
                self.put('\u{FFFD}');
            }
            0xc0..=0xdf => {
                self.utf8.clear();
                self.utf8.push(b);
                self.utf8_need = 1;
            }
            0xe0..=0xef => {
                self.utf8.clear();
                self.utf8.push(b);
                self.utf8_need = 2;
            }
            0xf0..=0xf7 => {
                self.utf8.clear();
                self.utf8.push(b);
                self.utf8_need = 3;
            }
            0xf8..=0xff => {
                self.bad_utf8 += 1;
                self.put('\u{FFFD}');
            }
        }
    }

    fn csi_final(&mut self, b: u8) {
        match b {
            b'C' => match self.param(1) {
                Some(n) => self.col += n.max(1),
                None => self.unsupported("CUF parameter".into()),
            },
            b'D' => match self.param(1) {
                Some(n) => self.col = self.col.saturating_sub(n.max(1)),
                None => self.unsupported("CUB parameter".into()),
            },
            b's' if self.params.is_empty() => self.saved_col = self.col,
            b'u' if self.params.is_empty() => self.col = self.saved_col,
            b'X' => match self.param(1) {
                Some(n) => {
                    let end = (self.col + n.max(1)).min(self.line.len());
                    for c in self.col..end {
                        self.line[c] = ' ';
                    }
                }
                None => self.unsupported("ECH parameter".into()),
            },
            b'G' | b'`' => match self.param(1) {
                Some(n) => self.col = n.max(1) - 1,
                None => self.unsupported("CHA parameter".into()),
            },
            b'@' => match self.param(1) {
                Some(n) => {
                    if self.col < self.line.len() {
                        for _ in 0..n.max(1) {
                            self.line.insert(self.col, ' ');
                        }
                    }
                }
                None => self.unsupported("ICH parameter".into()),
            },
            b'P' => match self.param(1) {
                Some(n) => {
                    for _ in 0..n.max(1) {
                        if self.col < self.line.len() {
                            self.line.remove(self.col);
                        }
                    }
                }
                None => self.unsupported("DCH parameter".into()),
            },
            b'K' => match self.param(0) {
                Some(0) => self.line.truncate(self.col),
                Some(1) => {
                    let end = (self.col + 1).min(self.line.len());
                    for c in &mut self.line[..end] {
                        *c = ' ';
                    }
                }
                Some(2) => self.line.clear(),
                _ => self.unsupported("EL parameter".into()),
            },
            _ => self.unsupported(format!("CSI final 0x{b:02x}")),
        }
    }
}

#[cfg(test)]
mod tests {
    use super::Term;

    #[test]
    fn basics() {
        let mut t = Term::new();
        t.feed("$ abc".as_bytes());
        assert_eq!(t.line.iter().collect::<String>(), "$ abc");
        assert_eq!(t.col, 5);
        t.feed(b"\x1b[D\x1b[D\x1b[@Z");
        assert_eq!(t.line.iter().collect::<String>(), "$ aZbc");
        assert_eq!(t.col, 4);
        t.feed(b"\x1b[D\x1b[P");
        assert_eq!(t.line.iter().collect::<String>(), "$ abc");
        t.feed(b"\r\x1b[2K");
        assert!(t.line_is_blank());
        assert_eq!(t.col, 0);
        t.feed("жx\r\ny".as_bytes());
        assert_eq!(t.scroll.last().unwrap().iter().collect::<String>(), "жx");
        assert_eq!(t.line.iter().collect::<String>(), "y");
        assert_eq!(t.unsupported, 0);
    }
}
