//! Reach measures: probes ("this rare condition was hit"), fault counters,
//! interleaving cells, distinct abstract states.

use std::collections::HashSet;

macro_rules! probes {
    ($($name:ident),* $(,)?) => {
        #[allow(non_camel_case_types)]
        #[derive(Clone, Copy, Debug, PartialEq, Eq)]
        #[repr(usize)]
        pub enum P { $($name),* , _Count }
        pub const PROBE_NAMES: &[&str] = &[$(stringify!($name)),*];
    };
}

probes! {
    // events
    ticks, rx_bytes, ev_char, ev_backspace, ev_left, ev_right, ev_up, ev_down, ev_tab, ev_enter, ev_nothing,
    app_write, app_set_prompt, app_set_switch, app_handler_script,
    // C01
    dispatch, enter_empty_line, enter_blank_line, enter_cursor_inside, enter_after_recall_edit,
    enter_after_completion, enter_full_buffer, enter_help_routed, enter_help_unspecified, enter_tokens_unspecified,
    enter_leading_empty_quotes, enter_set_switched_mid_line, enter_quoted_token, enter_multibyte,
    // C02 / RX faults
    rx_malformed_byte, rx_valid_after_fragment, rx_unspecified_byte, rx_del,
    rx_overlong, rx_surrogate, rx_too_large, rx_stray_continuation, rx_truncated, rx_invalid_lead,
    // C04
    csi_with_params, csi_ignored_final, lone_esc, pair_crlf, pair_lfcr, same_terminator_twice,
    ignored_c0, app_event_mid_char, app_event_after_esc, app_event_in_csi, app_event_in_pair,
    // C05
    insert_inside, insert_rejected_full, insert_rejected_partial_room, backspace_inside, backspace_at_start,
    left_at_start, right_at_end, insert_2byte, insert_3byte, insert_4byte, buffer_exactly_full,
    // C06
    write_cursor_inside, write_line_empty, write_line_nonempty, prompt_cursor_inside, prompt_line_nonempty,
    handler_prompt_change, write_mid_char, write_in_csi, write_in_pair, recall_shorter_over_longer, tab_cursor_inside,
    // C10
    hist_push_new, hist_push_dup_newest, hist_push_dup_older, hist_evict_one, hist_evict_many, hist_evict_all,
    hist_unrecordable_empty, hist_unrecordable_long, hist_recall_up, hist_recall_down, hist_up_at_oldest,
    hist_down_past_newest, hist_down_not_navigating, hist_enter_while_navigating, hist_multibyte_entry,
    // C11
    tab_unique, tab_unique_no_room_for_blank, tab_common_prefix, tab_no_match, tab_argument_started, tab_empty_word,
    tab_does_not_fit, tab_partial_fit, tab_trailing_blanks, tab_leading_blanks, tab_help_candidate,
    tab_exact_name_also_prefix, tab_multibyte, tab_grouped_set, tab_nonadjacent_matches,
    // C13
    handler_output_nonempty, handler_output_ends_lf, handler_output_no_lf, handler_output_inner_lf,
    handler_output_crlf_split, handler_empty_calls, handler_parse_error_returned, write_output_nonempty,
    write_output_ends_lf, write_output_no_lf, out_via_ln, out_via_ufmt, out_via_fmt, write_full_buffer,
    write_while_navigating,
    // C14 / faults
    fault_write_err, fault_flush_err, fault_sticky, fault_app_err, fault_in_char_echo, fault_in_enter,
    fault_in_handler_output, fault_in_help, fault_in_parse_error, fault_in_recall, fault_in_tab, fault_in_write,
    fault_in_set_prompt, fault_in_build, fault_in_backspace, fault_in_move, recovered_after_fault, enter_after_fault, fault_group_help,
    // sink modes
    sink_short_write, sink_buffered_run, sink_passthrough_run, sink_short_run,
    // C15
    call_with_output_ok, call_with_output_buffered_ok,
    // configuration
    cap_cmd_0, cap_cmd_1, cap_cmd_small, cap_hist_0, cap_hist_1, cap_hist_small,
    parse_error_missing, parse_error_value, parse_error_unexpected_arg, parse_error_long, parse_error_short,
    parse_error_unknown, help_all, help_command, help_option,
}

pub const N_PROBES: usize = P::_Count as usize;

#[derive(Clone, Debug)]
pub struct Stats {
    pub probes: Vec<u64>,
    /// application event kind (4) x decoder phase (6) x editor phase (4)
    pub cells: [u64; 96],
    /// distinct abstract states seen (digests), bounded
    pub states: HashSet<u64>,
    /// decoder (state class x byte class) pairs
    pub decoder_pairs: HashSet<u32>,
    /// malformed-byte class sequences delivered (length <= 4), packed
    pub bad_class_seqs: HashSet<u32>,
    /// editor states (cap <= 6: cap, byte-length pattern, cursor) reached after an editing key
    pub small_editor_states: HashSet<u64>,
    /// history states (cap <= 8: cap, entry lengths, navigation position) reached
    pub small_history_states: HashSet<u64>,
    pub runs: u64,
    pub runs_faulty: u64,
    pub runs_fault_free: u64,
}

pub const MAX_STATES: usize = 4_000_000;

impl Default for Stats {
    fn default() -> Self {
        Stats {
            probes: vec![0; N_PROBES],
            cells: [0; 96],
            states: HashSet::new(),
            decoder_pairs: HashSet::new(),
            bad_class_seqs: HashSet::new(),
            small_editor_states: HashSet::new(),
            small_history_states: HashSet::new(),
            runs: 0,
            runs_faulty: 0,
            runs_fault_free: 0,
        }
    }
}

impl Stats {
    #[inline]
    pub fn hit(&mut self, p: P) {
        self.probes[p as usize] += 1;
    }
    #[inline]
    pub fn add(&mut self, p: P, n: u64) {
        self.probes[p as usize] += n;
    }
    pub fn get(&self, p: P) -> u64 {
        self.probes[p as usize]
    }
    pub fn state(&mut self, digest: u64) {
        if self.states.len() < MAX_STATES {
            self.states.insert(digest);
        }
    }
    pub fn merge(&mut self, other: &Stats) {
        for (a, b) in self.probes.iter_mut().zip(other.probes.iter()) {
            *a += *b;
        }
        for (a, b) in self.cells.iter_mut().zip(other.cells.iter()) {
            *a += *b;
        }
        for s in &other.states {
            if self.states.len() < MAX_STATES {
                self.states.insert(*s);
            }
        }
        self.decoder_pairs.extend(other.decoder_pairs.iter().copied());
        self.bad_class_seqs.extend(other.bad_class_seqs.iter().copied());
        self.small_editor_states.extend(other.small_editor_states.iter().copied());
        self.small_history_states.extend(other.small_history_states.iter().copied());
        self.runs += other.runs;
        self.runs_faulty += other.runs_faulty;
        self.runs_fault_free += other.runs_fault_free;
    }
}
