//! Hand-written PRNG (splitmix64 seeding + xoshiro256**), so that the stream of
//! choices never changes with a crate upgrade. Everything a run does is derived
//! from one of these, initialised from (VERIF_SEED, family id, run index).

#[derive(Clone, Debug)]
pub struct Rng {
    s: [u64; 4],
}

pub fn splitmix64(state: &mut u64) -> u64 {
    *state = state.wrapping_add(0x9E37_79B9_7F4A_7C15);
    let mut z = *state;
    z = (z ^ (z >> 30)).wrapping_mul(0xBF58_476D_1CE4_E5B9);
    z = (z ^ (z >> 27)).wrapping_mul(0x94D0_49BB_1331_11EB);
    z ^ (z >> 31)
}

/// Mixes several integers into one seed (order dependent)
pub fn mix(parts: &[u64]) -> u64 {
    let mut st = 0x243F_6A88_85A3_08D3u64;
    let mut out = 0u64;
    for &p in parts {
        st ^= p.wrapping_mul(0x9E37_79B9_7F4A_7C15);
        out = splitmix64(&mut st) ^ out.rotate_left(17);
    }
    out
}

impl Rng {
    pub fn new(seed: u64) -> Self {
        let mut st = seed;
        let s = [
            splitmix64(&mut st),
            splitmix64(&mut st),
            splitmix64(&mut st),
            splitmix64(&mut st),
        ];
        Rng { s }
    }

    pub fn next_u64(&mut self) -> u64 {
        let result = self.s[1].wrapping_mul(5).rotate_left(7).wrapping_mul(9);
        let t = self.s[1] << 17;
        self.s[2] ^= self.s[0];
        self.s[3] ^= self.s[1];
        self.s[1] ^= self.s[2];
        self.s[0] ^= self.s[3];
        self.s[2] ^= t;
        self.s[3] = self.s[3].rotate_left(45);
        result
    }

    /// Uniform in 0..n (n > 0)
    pub fn below(&mut self, n: usize) -> usize {
        debug_assert!(n > 0);
        // multiply-shift; bias is irrelevant for n << 2^32
        (((self.next_u64() >> 32) * n as u64) >> 32) as usize
    }

    /// Uniform in lo..=hi
    pub fn range(&mut self, lo: usize, hi: usize) -> usize {
        lo + self.below(hi - lo + 1)
    }

    /// True with probability num/den
    pub fn chance(&mut self, num: usize, den: usize) -> bool {
        self.below(den) < num
    }

    pub fn pick<'a, T>(&mut self, items: &'a [T]) -> &'a T {
        &items[self.below(items.len())]
    }

    /// Index drawn with the given weights (sum must be > 0)
    pub fn weighted(&mut self, weights: &[u32]) -> usize {
        let total: u64 = weights.iter().map(|&w| w as u64).sum();
        debug_assert!(total > 0);
        let mut x = (self.next_u64() % total) as i64;
        for (i, &w) in weights.iter().enumerate() {
            x -= w as i64;
            if x < 0 {
                return i;
            }
        }
        weights.len() - 1
    }
}

/// FNV-1a 64, used for trace digests (order independent summation happens elsewhere)
pub fn fnv1a(bytes: &[u8]) -> u64 {
    let mut h = 0xcbf2_9ce4_8422_2325u64;
    for &b in bytes {
        h ^= b as u64;
        h = h.wrapping_mul(0x0000_0100_0000_01B3);
    }
    h
}
