"""C16: the simulator is built under all 8 subsets of {history, autocomplete, help}
(macros on) and the same seeded sessions are judged by the same oracles with the
specification configured alike (history off: Up/Down change nothing and emit nothing;
autocomplete off: Tab likewise; help off: help-shaped lines go to the handler).

Oracle 2 (cross-build): every trace is executed by the full build and by each reduced
build; for traces in which the disabled facility was never exercised (no Up/Down
decoded, no Tab decoded, no help-shaped line submitted - measured by the full build)
the observable behaviour (sink bytes per event, handler log, edited line and cursor
after every event) must be identical; compared through per-run digests.
"""
import atexit
import itertools
import os
import subprocess
import time


def subsets():
    feats = ["history", "autocomplete", "help"]
    out = []
    for n in range(len(feats), -1, -1):
        for c in itertools.combinations(feats, n):
            out.append(list(c))
    return out


def run(drv, tier, seed):
    prop = "C16"
    plan = drv.PLANS[prop]
    ti = 0 if tier == "quick" else 1
    t0 = time.time()
    acc = None
    violations = 0
    builds = {}
    per_build = {}
    for feats in subsets():
        tag = drv.feature_tag(feats)
        if tag == "hap":
            binary, bt = drv.build(feats)  # the full build failing is a harness / tree problem, not a C16 verdict
        else:
            binary, bt = drv.build(feats, fatal=False)
            if binary is None:
                # "under every combination of the optional features the library builds": the full
                # build works, this one does not
                path = os.path.join(drv.REPLAYS, f"C16-build_failure-{tag}.trace")
                os.makedirs(drv.REPLAYS, exist_ok=True)
                with open(path, "w") as f:
                    f.write(f"# VIOLATION property=C16 check=build_failure: library + derive macros + command sets do not build with features [{','.join(feats) or 'none'}] (they do with all features)\n")
                    f.write(f"# build-failure: {tag}\n")
                    for l in bt.splitlines()[-40:]:
                        f.write("# " + l + "\n")
                    f.write("cfg cmd_cap=32 hist_cap=32 prompt=0 set=0 buffered=0 short=0 salt=0 family=none ctor=builder proc=raw\n")
                drv.say(bt[-2500:])
                drv.say(f"VIOLATION property=C16 replay={path}")
                drv.say(f"  check=build_failure: does not build with features [{','.join(feats) or 'none'}]")
                drv.build()
                drv.write_evidence(prop, tier, seed, None, time.time() - t0, 1, extra={"build_failure": tag})
                return 1
        builds[tag] = binary
        drv.say(f"[C16] built feature set [{','.join(feats) or 'none'}] in {bt:.1f}s")
    # restore the default build last so that other checks find target/ warm
    tmpjson = os.path.join(drv.SIM, "target", f"out-C16-{os.getpid()}.json")
    atexit.register(lambda p=tmpjson: os.path.exists(p) and os.remove(p))
    # every trace must be judged under all 16 C-properties' oracles in every build: any
    # failure of any property under a reduced build is a C16 violation, so ask for C16 and
    # for the behavioural properties in turn
    for tag, binary in builds.items():
        for p in ("C16",):
            args = ["run", "--prop", p, "--all-props-as", "C16", "--profiles", plan["profiles"], "--runs", str(plan["runs"][ti]), "--seed", str(seed)]
            rc, out, err, data = drv.run_bin(binary, args, tmpjson)
            if data:
                per_build[tag] = dict(evaluations=data["evaluations"], distinct_nontrivial=data["distinct_nontrivial"],
                                      features=data["features"], wall_s=data["wall_s"])
                acc = drv.merge(acc, data)
                drv.say(f"[C16] features={tag}: {data['evaluations']} executions, {data['wall_s']:.1f}s")
            v = drv.handle_outcome(binary, prop, rc, out, err, data)
            violations += v
            if v:
                drv.say(f"  (feature set {tag}: replay with sim/bin/ecli-sim-{tag} replay <path>)")
                break
        if violations:
            break

    cross = None
    if not violations:
        cross, v = cross_build(drv, builds, plan, ti, seed)
        violations += v

    wall = time.time() - t0
    if acc:
        acc["features"] = {"all_8_subsets": True}
    extra = {"per_feature_set": per_build, "cross_build": cross}
    drv.write_evidence(prop, tier, seed, acc, wall, violations, extra=extra)
    return violations


def cross_build(drv, builds, plan, ti, seed):
    """Oracle 2: digests of observable behaviour, full build vs. each reduced build"""
    runs = max(plan["runs"][ti] // 3, 1000)
    full = builds["hap"]

    def digests(binary):
        r = subprocess.run([binary, "digest", "--observable", "1", "--profiles", plan["profiles"], "--runs", str(runs),
                            "--seed", str(seed), "--threads", str(drv.THREADS)], cwd=drv.SIM, env=drv.ENV,
                           stdout=subprocess.PIPE, stderr=subprocess.PIPE, text=True)
        if r.returncode != 0:
            drv.say(r.stdout[-2000:])
            drv.say(r.stderr[-2000:])
            drv.say("HARNESS ERROR: digest run failed")
            raise SystemExit(2)
        out = {}
        for line in r.stdout.splitlines():
            parts = line.split()
            # index trace-digest outcome-digest observable-digest used-mask
            out[int(parts[0])] = (parts[1], parts[3], int(parts[4]))
        return out

    base = digests(full)
    compared = {}
    violations = 0
    masks = {"history": 1, "autocomplete": 2, "help": 4}
    for tag, binary in builds.items():
        if tag == "hap":
            continue
        disabled = [f for f in masks if drv.FEATURE_LETTER[f] not in tag.replace("none", "")]
        dmask = sum(masks[f] for f in disabled)
        other = digests(binary)
        n = 0
        for idx, (td, od, used) in base.items():
            if used & dmask:
                continue  # the disabled facility was exercised: behaviour may differ
            n += 1
            td2, od2, _ = other[idx]
            if td != td2:
                drv.say(f"HARNESS ERROR: builds generated different traces for run {idx}")
                raise SystemExit(2)
            if od != od2:
                # write the trace out as the replay file
                r = subprocess.run([full, "gen", "--profile", plan["profiles"].split(",")[idx % len(plan["profiles"].split(","))],
                                    "--seed", str(seed), "--index", str(idx)], cwd=drv.SIM, env=drv.ENV,
                                   stdout=subprocess.PIPE, text=True)
                path = os.path.join(drv.REPLAYS, f"C16-crossbuild-{tag}-s{seed}-r{idx}.trace")
                with open(path, "w") as f:
                    f.write(f"# VIOLATION property=C16 check=cross_build: observable behaviour differs between the full build and the build without [{','.join(disabled)}] although that facility is never exercised\n")
                    f.write(f"# cross-build: hap vs {tag}\n")
                    f.write(f"# compare: sim/bin/ecli-sim-hap replay {path} --verbose  vs  sim/bin/ecli-sim-{tag} replay {path} --verbose\n")
                    f.write(r.stdout)
                drv.say(f"VIOLATION property=C16 replay={path}")
                drv.say(f"  check=cross_build: run {idx} behaves differently without [{','.join(disabled)}] although the facility is never used in it")
                violations += 1
                break
        compared[tag] = n
        drv.say(f"[C16] cross-build full vs {tag}: {n} of {len(base)} traces do not use the disabled facility, all identical" if not violations else "")
        if violations:
            break
    return {"traces": len(base), "compared_per_reduced_build": compared}, violations
